"""C11 — queries are pure: no input mutation, no order dependence, deterministic."""
import hashlib

import numpy as np
from hypothesis import strategies as st

from vp import gens, scene
from vp.engine import SubCheck, machine_base, replay_history

PROPERTY = "C11"
RULE = (
    "Three rule-based state machines plus one @given check. structures: pool of Mask2D / Array2D (slim- or native-"
    "stored) / Grid2D (with and without over-sampling) / VectorYX2D / Kernel2D / Visibilities / VisibilitiesNoiseMap / "
    "Grid2DIrregular / ArrayIrregular built from caller-owned arrays; rules = read a quantity from a per-type "
    "catalogue, derive (x*c, x+c, -x, x/c, abs, slice, copy, .slim, .native, apply_mask, resized_from, "
    "padded_before_convolution_from, trimmed_after_convolution_from, subtracted_from, flipped), audit (read every "
    "catalogue quantity). dataset: Imaging -> apply_mask / apply_noise_scaling / apply_over_sampling / "
    "trimmed_after_convolution_from with reads of grids.*, convolver tables, w_tilde tables, S/N map. inversion: "
    "dataset + mappers (+ function list) -> aa.Inversion (both formalisms, explicit or defaulted settings/preloads) "
    "with reads of ~25 inversion / mapper / mesh quantities in generated order and multiplicity, MapperValued "
    "queries, a second inversion built afterwards. Oracle: (a) SHA-1 fingerprints of every caller-owned input "
    "unchanged after every step; (b) pristine twin - the expected value of every read is the one obtained from a "
    "freshly rebuilt object graph (rebuilt from deep-copied raw inputs, or from the derived object's own contents) on "
    "which that quantity is read first (ints exact, floats rtol 1e-12); (c) values previously returned to the caller are "
    "snapshotted and must not change later; (d) settings / preloads objects passed in are attribute-wise unchanged. "
    "simulator: SimulatorImaging(noise_seed=k) twice with the global numpy RNG re-seeded / advanced in between gives "
    "identical datasets. seeded_helpers: the seeded noise helpers of dataset/preprocess.py (poisson / gaussian / complex gaussian) and "
    "SimulatorInterferometer(noise_seed=k), each called from a different global RNG state in two runs, give identical results and leave "
    "their inputs unchanged. Non-trivial = history contains a read, then a derivation or a different read, then a re-read; "
    "distinct = SHA-1 of the canonical history."
)
ASSUMPTIONS = [
    "the twin oracle compares the implementation with itself on a fresh object graph: it decides order-independence / purity, not the correctness of the values (that is C01-C10, C12-C20)",
    "float comparisons at rtol 1e-12 (same code, same inputs; slack only absorbs BLAS reduction order)",
    "the documented reuse of the curvature-matrix buffer (curvature_reg_matrix adds H into the array previously returned by curvature_matrix and drops the cache entry) is observed through fresh reads only: a previously returned curvature_matrix array is excluded from the returned-value snapshots",
    "a purity fault in a query outside the catalogue is invisible; catalogue sizes are reported as labels",
]
TECHNIQUE = "Hypothesis rule-based state machines over read/derive histories against a pristine-twin model, input fingerprints and returned-value snapshots"


# ---------------------------------------------------------------------------------------------
# value normalisation and comparison
# ---------------------------------------------------------------------------------------------
def norm(v):
    """Turn a returned quantity into something comparable: nested tuple of numpy arrays / scalars."""
    import autoarray as aa
    if v is None or isinstance(v, (bool, int, float, complex, str)):
        return v
    if isinstance(v, (np.bool_, np.integer, np.floating, np.complexfloating)):
        return v.item()
    if isinstance(v, dict):
        return tuple(sorted((str(k), norm(x)) for k, x in v.items()))
    if isinstance(v, (list, tuple)):
        try:
            arr = np.asarray(v)
            if arr.dtype != object:
                return arr.copy()
        except Exception:
            pass
        return tuple(norm(x) for x in v)
    try:
        arr = np.array(v)
        if arr.dtype == object:
            return repr(v)
        extra = []
        for attr in ("pixel_scales", "origin"):
            try:
                extra.append(tuple(float(x) for x in getattr(v, attr)))
            except Exception:
                pass
        if hasattr(v, "mask") and not isinstance(v, np.ndarray):
            try:
                m = np.array(v.mask).copy()
                extra.append(m)
                # native-stored contents: entries at masked pixels are not part of the structure's values
                # (arithmetic on a native-stored structure legitimately leaves arbitrary numbers there)
                if m.dtype == bool and m.ndim == 2 and arr.shape[:2] == m.shape and arr.dtype.kind in "fc":
                    arr = arr.copy()
                    arr[m] = 0
            except Exception:
                pass
        return (arr.copy(),) + tuple(extra) if extra else arr.copy()
    except Exception:
        return repr(v)


def same(a, b, rtol=1e-12):
    if type(a) is tuple or type(b) is tuple:
        if type(a) is not type(b) or len(a) != len(b):
            return False
        return all(same(x, y, rtol) for x, y in zip(a, b))
    if isinstance(a, np.ndarray) or isinstance(b, np.ndarray):
        a = np.asarray(a); b = np.asarray(b)
        if a.shape != b.shape:
            return False
        if a.dtype.kind in "fc" or b.dtype.kind in "fc":
            with np.errstate(all="ignore"):
                fin = np.isfinite(a) & np.isfinite(b)
                ok = np.where(fin, np.abs(a - b) <= rtol * np.maximum(np.abs(a), np.abs(b)) + 1e-300, (a == b) | (np.isnan(a) & np.isnan(b)))
            return bool(np.all(ok))
        return bool(np.array_equal(a, b))
    if isinstance(a, float) or isinstance(b, float):
        try:
            if a == b:      # covers equal infinities
                return True
            return abs(a - b) <= rtol * max(abs(a), abs(b)) + 1e-300 or (a != a and b != b)
        except Exception:
            return False
    return a == b


def _call(fn, obj):
    """Evaluate a catalogue query; an exception is a value too (the twin must raise the same one)."""
    try:
        return fn(obj)
    except Exception as e:  # compared against the twin, never swallowed silently
        return "raises:%s" % type(e).__name__


def fp(x):
    a = np.ascontiguousarray(np.asarray(x))
    return hashlib.sha1(a.tobytes() + str(a.shape).encode() + str(a.dtype).encode()).hexdigest()


def short(v, n=300):
    s = repr(v)
    return s if len(s) <= n else s[:n] + "..."


# ---------------------------------------------------------------------------------------------
# machine 1: structures
# ---------------------------------------------------------------------------------------------
def _q_mask():
    return [
        ("array", lambda m: np.array(m)),
        ("pixels_in_mask", lambda m: m.pixels_in_mask),
        ("is_all_false", lambda m: m.is_all_false),
        ("is_circular", lambda m: m.is_circular),
        ("circular_radius", lambda m: m.circular_radius if m.is_circular else None),
        ("mask_centre", lambda m: m.mask_centre),
        ("zoom_centre", lambda m: m.zoom_centre),
        ("zoom_offset_scaled", lambda m: m.zoom_offset_scaled),
        ("zoom_region", lambda m: m.zoom_region),
        ("zoom_shape_native", lambda m: m.zoom_shape_native),
        ("shape_native_masked_pixels", lambda m: m.shape_native_masked_pixels),
        ("extent", lambda m: m.geometry.extent),
        ("unmasked_slim", lambda m: m.derive_indexes.unmasked_slim),
        ("edge_slim", lambda m: m.derive_indexes.edge_slim),
        ("border_slim", lambda m: m.derive_indexes.border_slim),
        ("native_for_slim", lambda m: m.derive_indexes.native_for_slim),
        ("grid_unmasked", lambda m: m.derive_grid.unmasked),
        ("grid_edge", lambda m: m.derive_grid.edge),
        ("mask_edge", lambda m: m.derive_mask.edge),
        ("pixel_scales", lambda m: m.pixel_scales),
        ("origin", lambda m: m.origin),
    ]


def _q_array2d():
    return [
        ("array", lambda a: a),
        ("slim", lambda a: a.slim),
        ("native", lambda a: a.native),
        ("binned_across_rows", lambda a: a.binned_across_rows),
        ("binned_across_columns", lambda a: a.binned_across_columns),
        ("zoomed_around_mask", lambda a: a.zoomed_around_mask(buffer=1)),
        ("extent_of_zoomed_array", lambda a: a.extent_of_zoomed_array(buffer=1)),
        ("extent", lambda a: a.geometry.extent),
        ("shape_native", lambda a: a.shape_native),
        ("total_pixels", lambda a: a.total_pixels),
        ("pixel_area", lambda a: a.pixel_area),
        ("unmasked_grid", lambda a: a.unmasked_grid),
        ("mask_edge_slim", lambda a: a.mask.derive_indexes.edge_slim),
        ("sum", lambda a: float(np.sum(np.array(a.slim)))),
    ]


def _q_grid2d():
    return [
        ("array", lambda g: g),
        ("slim", lambda g: g.slim),
        ("native", lambda g: g.native),
        ("is_uniform", lambda g: g.is_uniform),
        ("flipped", lambda g: g.flipped),
        ("in_radians", lambda g: g.in_radians),
        ("scaled_minima", lambda g: g.scaled_minima),
        ("scaled_maxima", lambda g: g.scaled_maxima),
        ("shape_native_scaled_interior", lambda g: g.shape_native_scaled_interior),
        ("extent_with_buffer", lambda g: g.extent_with_buffer_from()),
        ("squared_distances", lambda g: g.squared_distances_to_coordinate_from(coordinate=(0.1, -0.2))),
        ("over_sampled_grid", lambda g: g.over_sampler.over_sampled_grid if g.over_sampling is not None else None),
        ("over_sampler_sub_total", lambda g: g.over_sampler.sub_total if g.over_sampling is not None else None),
        ("mask_border_slim", lambda g: g.mask.derive_indexes.border_slim),
    ]


def _q_vector():
    return [
        ("array", lambda v: v),
        ("slim", lambda v: v.slim),
        ("native", lambda v: v.native),
        ("magnitudes", lambda v: v.magnitudes),
        ("y", lambda v: v.y),
        ("x", lambda v: v.x),
        ("grid", lambda v: v.grid),
        ("average_magnitude", lambda v: v.average_magnitude),
    ]


def _q_kernel():
    return [
        ("array", lambda k: k),
        ("native", lambda k: k.native),
        ("slim", lambda k: k.slim),
        ("normalized", lambda k: k.normalized),
        ("shape_native", lambda k: k.shape_native),
        ("convolved_ones", lambda k: k.convolved_array_from(_ones_like_kernel(k)) if (k.shape_native[0] % 2 and k.shape_native[1] % 2) else None),
    ]


def _ones_like_kernel(k):
    import autoarray as aa
    h, w = k.shape_native
    vals = np.arange((h + 2) * (w + 2), dtype=float).reshape(h + 2, w + 2) % 7
    return aa.Array2D.no_mask(values=vals, pixel_scales=k.pixel_scales)


def _q_vis():
    return [
        ("array", lambda v: v),
        ("ordered_1d", lambda v: v.ordered_1d),
        ("amplitudes", lambda v: v.amplitudes),
        ("phases", lambda v: v.phases),
        ("in_array", lambda v: v.in_array),
        ("in_grid", lambda v: v.in_grid),
        ("shape_slim", lambda v: v.shape_slim),
    ]


def _q_visnoise():
    return [
        ("array", lambda v: v),
        ("ordered_1d", lambda v: v.ordered_1d),
        ("weight_list_ordered_1d", lambda v: v.weight_list_ordered_1d),
        ("in_array", lambda v: v.in_array),
        ("amplitudes", lambda v: v.amplitudes),
    ]


def _q_girr():
    return [
        ("array", lambda g: g),
        ("in_list", lambda g: g.in_list),
        ("scaled_minima", lambda g: g.scaled_minima),
        ("scaled_maxima", lambda g: g.scaled_maxima),
        ("extent_with_buffer", lambda g: g.extent_with_buffer_from()),
        ("distances", lambda g: g.distances_to_coordinate_from(coordinate=(0.3, 0.1))),
        ("furthest", lambda g: g.furthest_distances_to_other_coordinates),
    ]


def _q_airr():
    return [
        ("array", lambda a: a),
        ("in_list", lambda a: a.in_list),
        ("slim", lambda a: a.slim),
    ]


CATALOGUE = {"mask": _q_mask, "array2d": _q_array2d, "grid2d": _q_grid2d, "vector": _q_vector, "kernel": _q_kernel,
             "vis": _q_vis, "visnoise": _q_visnoise, "girr": _q_girr, "airr": _q_airr}


def rebuild(kind, x):
    """A fresh object built from x's own contents through the public constructor.  For native-stored
    structures the stored array is then restored bit-for-bit (the constructor zeroes entries at masked
    pixels, which arithmetic on a native-stored structure legitimately leaves non-zero), so the twin has
    identical contents and no history."""
    t = _rebuild(kind, x)
    if kind in ("array2d", "grid2d", "vector", "kernel"):
        raw = np.array(x).copy()
        if np.array(t).shape == raw.shape:
            t._array = raw
    return t


def _rebuild(kind, x):
    import autoarray as aa
    if kind == "mask":
        return aa.Mask2D(mask=np.array(x).copy(), pixel_scales=tuple(x.pixel_scales), origin=tuple(x.origin))
    if kind == "array2d":
        return aa.Array2D(values=np.array(x).copy(), mask=rebuild("mask", x.mask), store_native=x.store_native, header=x.header)
    if kind == "grid2d":
        return aa.Grid2D(values=np.array(x).copy(), mask=rebuild("mask", x.mask), store_native=(np.array(x).ndim == 3),
                         over_sampling=x.over_sampling)
    if kind == "vector":
        return aa.VectorYX2D(values=np.array(x).copy(), grid=rebuild("grid2d", x.grid), mask=rebuild("mask", x.mask),
                             store_native=(np.array(x).ndim == 3))
    if kind == "kernel":
        return aa.Kernel2D(values=np.array(x).copy(), mask=rebuild("mask", x.mask), store_native=x.store_native, header=x.header)
    if kind == "vis":
        return aa.Visibilities(visibilities=np.array(x).copy())
    if kind == "visnoise":
        return aa.VisibilitiesNoiseMap(visibilities=np.array(x).copy())
    if kind == "girr":
        return aa.Grid2DIrregular(values=np.array(x).copy())
    if kind == "airr":
        return aa.ArrayIrregular(values=np.array(x).copy())
    raise ValueError(kind)


def kind_of(x):
    import autoarray as aa
    if isinstance(x, aa.Mask2D):
        return "mask"
    if isinstance(x, aa.Kernel2D):
        return "kernel"
    if isinstance(x, aa.Array2D):
        return "array2d"
    if isinstance(x, aa.Grid2D):
        return "grid2d"
    if isinstance(x, aa.VectorYX2D):
        return "vector"
    if isinstance(x, aa.VisibilitiesNoiseMap):
        return "visnoise"
    if isinstance(x, aa.Visibilities):
        return "vis"
    if isinstance(x, aa.Grid2DIrregular):
        return "girr"
    if isinstance(x, aa.ArrayIrregular):
        return "airr"
    return None


DERIVATIONS = {
    "array2d": ["mul", "add", "neg", "div", "abs", "copy", "slim", "native", "apply_mask", "resized", "padded", "trimmed", "sub_self"],
    "kernel": ["mul", "copy", "normalized", "native"],
    "grid2d": ["mul", "add", "neg", "copy", "slim", "native", "subtracted", "flipped", "padded_grid"],
    "vector": ["mul", "neg", "copy", "slim", "native", "apply_mask"],
    "vis": ["mul", "add", "neg", "copy", "slice", "div"],
    "visnoise": ["mul", "copy", "slice"],
    "girr": ["mul", "add", "copy", "slice"],
    "airr": ["mul", "add", "copy", "slice"],
    "mask": ["copy", "resized_mask", "rescaled", "edge_mask", "edge_buffed"],
}


class StructInterp:
    def __init__(self, ctx):
        self.ctx = ctx
        self.dead = False
        self.pool = []        # (kind, obj, provenance)
        self.inputs = []      # (description, raw array, fingerprint)
        self.snaps = []       # (description, returned object, normalised copy)
        self.events = []      # sequence of ("read", i, q) / ("derive", i, d)
        self.steps = 0

    # -- helpers ---------------------------------------------------------------------------
    def _own(self, desc, arr):
        self.inputs.append((desc, arr, fp(arr)))
        return arr

    def _check_inputs(self, after):
        for desc, arr, h in self.inputs:
            self.ctx.check(fp(arr) == h, "structures/input-mutated/%s" % desc, "caller-owned %s changed after %s" % (desc, after))

    def _check_snaps(self, after):
        for desc, ref, want in self.snaps:
            self.ctx.check(same(norm(ref), want, rtol=0.0), "structures/returned-value-changed/%s" % desc,
                           "value returned earlier by %s changed after %s" % (desc, after))

    def _add(self, obj, prov):
        k = kind_of(obj)
        if k is not None and len(self.pool) < 12:
            self.pool.append((k, obj, prov))
            return True
        return False

    def _read(self, i, qi, audit=False):
        kind, obj, prov = self.pool[i]
        qs = CATALOGUE[kind]()
        name, fn = qs[qi % len(qs)]
        twin = rebuild(kind, obj)
        want = norm(_call(fn, twin))
        got_raw = _call(fn, obj)
        got = norm(got_raw)
        key = "structures/%s/%s/%s" % (kind, name, "constructed" if prov == "ctor" else "derived")
        self.ctx.check(same(got, want), key, lambda: "%s.%s on object derived by '%s' after history %s: got %s, fresh twin gives %s" % (
            kind, name, prov, self.events[-6:], short(got), short(want)))
        if not audit and isinstance(got_raw, np.ndarray) or hasattr(got_raw, "_array"):
            if len(self.snaps) < 40:
                self.snaps.append(("%s.%s" % (kind, name), got_raw, got))
        return name

    # -- ops -------------------------------------------------------------------------------
    def apply(self, op, a):
        import autoarray as aa
        ctx = self.ctx
        self.steps += 1
        if op == "new":
            self._new(a)
        elif op == "read":
            if not self.pool:
                return
            i = a["i"] % len(self.pool)
            name = self._read(i, a["q"])
            prior = [e for e in self.events if e[1] == i]
            if any(e[0] == "read" and e[2] != name for e in prior) or any(e[0] == "derive" for e in self.events):
                if any(e[0] == "read" and e[2] == name for e in prior) or self.pool[i][2] != "ctor":
                    ctx.nt(True)
            self.events.append(("read", i, name))
        elif op == "audit":
            if not self.pool:
                return
            i = a["i"] % len(self.pool)
            kind = self.pool[i][0]
            order = list(range(len(CATALOGUE[kind]())))
            if a["rev"]:
                order.reverse()
            for qi in order:
                self._read(i, qi, audit=True)
            self.events.append(("audit", i, "*"))
        elif op == "derive":
            if not self.pool:
                return
            i = a["i"] % len(self.pool)
            kind, obj, prov = self.pool[i]
            ds = DERIVATIONS[kind]
            d = ds[a["d"] % len(ds)]
            new = self._derive(kind, obj, d, a)
            if new is not None and self._add(new, d):
                self.events.append(("derive", i, d))
                ctx.label("derive:%s" % d)
                if any(e[0] in ("read", "audit") and e[1] == i for e in self.events):
                    ctx.label("history:derivation-after-read")
        self._check_inputs("%s %s" % (op, {k: v for k, v in a.items() if k != "values"}))
        self._check_snaps("%s" % op)

    def _new(self, a):
        import autoarray as aa
        kind = a["kind"]
        ctx = self.ctx
        ctx.label("new:%s" % kind)
        if kind in ("array2d", "grid2d", "vector", "mask", "kernel"):
            m = np.asarray(a["mask"], dtype=bool)
            h, w = m.shape
            raw_mask = self._own("mask-array", m.copy())
            mask = aa.Mask2D(mask=raw_mask, pixel_scales=tuple(a["pixel_scales"]), origin=tuple(a["origin"]))
            n = int((~m).sum())
            vals = np.resize(np.asarray(a["values"], dtype=float), 2 * h * w)
        if kind == "mask":
            self._add(mask, "ctor")
        elif kind == "array2d":
            native_in = a["native_in"]
            src = vals[:h * w].reshape(h, w).copy() if native_in else vals[:n].copy()
            raw = self._own("array2d-values-%s" % ("native" if native_in else "slim"), src)
            self._add(aa.Array2D(values=raw, mask=mask, store_native=a["store_native"]), "ctor")
        elif kind == "kernel":
            kh, kw = a["kshape"]
            raw = self._own("kernel-values", np.resize(np.abs(vals) + 0.1, kh * kw).reshape(kh, kw).copy())
            self._add(aa.Kernel2D.no_mask(values=raw, pixel_scales=tuple(a["pixel_scales"]), normalize=False), "ctor")
        elif kind == "grid2d":
            native_in = a["native_in"]
            src = vals.reshape(h, w, 2).copy() if native_in else vals.reshape(h * w, 2)[:n].copy()
            raw = self._own("grid2d-values-%s" % ("native" if native_in else "slim"), src)
            osamp = aa.OverSamplingUniform(sub_size=a["sub"]) if a["sub"] else None
            if a["from_mask"]:
                self._add(aa.Grid2D.from_mask(mask=mask, over_sampling=osamp), "ctor")
            else:
                self._add(aa.Grid2D(values=raw, mask=mask, store_native=a["store_native"], over_sampling=osamp), "ctor")
        elif kind == "vector":
            native_in = a["native_in"]
            src = vals.reshape(h, w, 2).copy() if native_in else vals.reshape(h * w, 2)[:n].copy()
            raw = self._own("vector-values-%s" % ("native" if native_in else "slim"), src)
            grid = aa.Grid2D.from_mask(mask=mask)
            self._add(aa.VectorYX2D(values=raw, grid=grid, mask=mask, store_native=a["store_native"]), "ctor")
        elif kind in ("vis", "visnoise"):
            v = np.asarray(a["values"], dtype=float)
            k = max(1, len(v) // 2)
            c = (np.resize(v, 2 * k)[:k] + 1j * np.resize(v, 2 * k)[k:]).astype("complex128")
            if kind == "visnoise":
                c = (np.abs(c.real) + 0.1) + 1j * (np.abs(c.imag) + 0.1)
            raw = self._own("%s-values" % kind, c.copy())
            self._add((aa.Visibilities if kind == "vis" else aa.VisibilitiesNoiseMap)(visibilities=raw), "ctor")
        elif kind == "girr":
            v = np.asarray(a["values"], dtype=float)
            k = max(1, len(v) // 2)
            raw = self._own("girr-values", np.resize(v, 2 * k).reshape(k, 2).copy())
            self._add(aa.Grid2DIrregular(values=raw), "ctor")
        elif kind == "airr":
            raw = self._own("airr-values", np.asarray(a["values"], dtype=float).copy())
            self._add(aa.ArrayIrregular(values=raw), "ctor")

    def _derive(self, kind, obj, d, a):
        import autoarray as aa
        c = a["c"]
        if d == "mul":
            return obj * c
        if d == "add":
            return obj + c
        if d == "neg":
            return -obj
        if d == "div":
            return obj / (c if c != 0 else 2.0)
        if d == "abs":
            return abs(obj)
        if d == "copy":
            return obj.copy()
        if d == "sub_self":
            return obj - obj.copy() * 0.5
        if d == "slim":
            return obj.slim
        if d == "native":
            return obj.native
        if d == "normalized":
            return obj.normalized
        if d == "flipped":
            return obj.flipped
        if d == "subtracted":
            return obj.subtracted_from(offset=(c, -0.5 * c))
        if d == "padded_grid":
            return obj.padded_grid_from(kernel_shape_native=(3, 3))
        if d == "slice":
            n = len(obj)
            lo = a["lo"] % n
            hi = lo + 1 + (a["hi"] % (n - lo))
            return obj[lo:hi]
        if d == "apply_mask":
            m = np.array(obj.mask).copy()
            idx = np.argwhere(~m)
            if len(idx) > 1:
                y, x = idx[a["lo"] % len(idx)]
                m[y, x] = True
            newmask = aa.Mask2D(mask=m, pixel_scales=tuple(obj.mask.pixel_scales), origin=tuple(obj.mask.origin))
            return obj.apply_mask(mask=newmask)
        if d == "resized":
            h, w = obj.shape_native
            return obj.resized_from(new_shape=(h + 2 * (a["lo"] % 2 + 1), w + 2 * (a["hi"] % 2 + 1)))
        if d == "padded":
            return obj.padded_before_convolution_from(kernel_shape=(3, 3))
        if d == "trimmed":
            h, w = obj.shape_native
            if h < 3 or w < 3:
                return None
            return obj.trimmed_after_convolution_from(kernel_shape=(3, 3))
        if d == "resized_mask":
            h, w = obj.shape_native
            return obj.resized_from(new_shape=(h + 2, w + 2), pad_value=1)
        if d == "rescaled":
            return obj.rescaled_from(rescale_factor=2.0)
        if d == "edge_mask":
            return obj.derive_mask.edge
        if d == "edge_buffed":
            return obj.derive_mask.edge_buffed
        return None

    def finish(self):
        self.ctx.label("pool:%d" % min(len(self.pool), 6), "reads:%d+" % (5 * (len([e for e in self.events if e[0] in ("read", "audit")]) // 5)))
        kinds = set(k for k, _, _ in self.pool)
        for k in kinds:
            self.ctx.label("kind:%s" % k)


def struct_machine(run):
    from hypothesis.stateful import rule, initialize
    Base = machine_base(run, StructInterp)
    kinds = st.sampled_from(["array2d", "array2d", "grid2d", "grid2d", "vector", "kernel", "vis", "vis", "visnoise", "mask", "girr", "airr"])

    @st.composite
    def new_args(draw):
        kind = draw(kinds)
        a = {"kind": kind}
        if kind in ("array2d", "grid2d", "vector", "mask", "kernel"):
            ring = draw(st.sampled_from([0, 1, 2]))
            a["mask"] = draw(gens.masks(lo=2, hi=5, ring=ring, min_unmasked=2))
            a["pixel_scales"] = draw(gens.pixel_scales())
            a["origin"] = draw(gens.origins(mag=5.0))
            a["native_in"] = draw(st.booleans())
            a["store_native"] = draw(st.booleans())
            a["sub"] = draw(st.sampled_from([0, 0, 1, 2]))
            a["from_mask"] = draw(st.booleans())
            a["kshape"] = draw(st.sampled_from([[3, 3], [1, 3], [3, 5], [2, 2]]))
        a["values"] = draw(st.lists(gens.reals(-5, 5), min_size=4, max_size=12))
        return a

    class StructMachine(Base):
        @initialize(a=new_args())
        def first(self, a):
            self.op("new", **a)

        @rule(a=new_args())
        def new(self, a):
            self.op("new", **a)

        @rule(i=st.integers(0, 11), q=st.integers(0, 20))
        def read(self, i, q):
            self.op("read", i=i, q=q)

        @rule(i=st.integers(0, 11), rev=st.booleans())
        def audit(self, i, rev):
            self.op("audit", i=i, rev=rev)

        @rule(i=st.integers(0, 11), q1=st.integers(0, 20), q2=st.integers(0, 20))
        def read_two(self, i, q1, q2):
            self.op("read", i=i, q=q1)
            self.op("read", i=i, q=q2)

        @rule(i=st.integers(0, 11), d=st.integers(0, 12), c=st.sampled_from([2.0, -1.5, 0.5, 3.0]), lo=st.integers(0, 7), hi=st.integers(0, 7))
        def derive(self, i, d, c, lo, hi):
            self.op("derive", i=i, d=d, c=c, lo=lo, hi=hi)

        @rule(i=st.integers(0, 11), q=st.integers(0, 20), d=st.integers(0, 12), c=st.sampled_from([2.0, -1.5, 0.5, 3.0]), lo=st.integers(0, 7), hi=st.integers(0, 7))
        def read_then_derive(self, i, q, d, c, lo, hi):
            self.op("read", i=i, q=q)
            self.op("derive", i=i, d=d, c=c, lo=lo, hi=hi)

    return StructMachine


# ---------------------------------------------------------------------------------------------
# machine 2: dataset / fit
# ---------------------------------------------------------------------------------------------
def _q_dataset():
    return [
        ("data", lambda d: d.data),
        ("noise_map", lambda d: d.noise_map),
        ("psf", lambda d: d.psf.native if d.psf is not None else None),
        ("mask", lambda d: d.mask),
        ("signal_to_noise_map", lambda d: d.signal_to_noise_map),
        ("signal_to_noise_max", lambda d: d.signal_to_noise_max),
        ("grid", lambda d: d.grid),
        ("grids.uniform", lambda d: d.grids.uniform),
        ("grids.non_uniform", lambda d: d.grids.non_uniform),
        ("grids.pixelization", lambda d: d.grids.pixelization),
        ("grids.blurring", lambda d: d.grids.blurring),
        ("grids.pixelization.over_sampled", lambda d: d.grids.over_sampler_pixelization.over_sampled_grid),
        ("grids.border_relocator.sub_border_slim", lambda d: d.grids.border_relocator.sub_border_slim),
        ("convolver.image_frame_1d_indexes", lambda d: d.convolver.image_frame_1d_indexes),
        ("convolver.image_frame_1d_kernels", lambda d: d.convolver.image_frame_1d_kernels),
        ("convolver.blurring_mask", lambda d: d.convolver.blurring_mask),
        ("w_tilde.curvature_preload", lambda d: d.w_tilde.curvature_preload),
        ("w_tilde.indexes", lambda d: d.w_tilde.indexes),
        ("w_tilde.lengths", lambda d: d.w_tilde.lengths),
        ("w_tilde.noise_map_value", lambda d: d.w_tilde.noise_map_value),
        ("shape_native", lambda d: d.shape_native),
        ("pixel_scales", lambda d: d.pixel_scales),
    ]


def _q_fit():
    return [
        ("data", lambda f: f.data),
        ("noise_map", lambda f: f.noise_map),
        ("model_data", lambda f: f.model_data),
        ("residual_map", lambda f: f.residual_map),
        ("normalized_residual_map", lambda f: f.normalized_residual_map),
        ("chi_squared_map", lambda f: f.chi_squared_map),
        ("signal_to_noise_map", lambda f: f.signal_to_noise_map),
        ("chi_squared", lambda f: f.chi_squared),
        ("reduced_chi_squared", lambda f: f.reduced_chi_squared),
        ("noise_normalization", lambda f: f.noise_normalization),
        ("log_likelihood", lambda f: f.log_likelihood),
        ("figure_of_merit", lambda f: f.figure_of_merit),
        ("grids.uniform", lambda f: f.grids.uniform),
        ("grids.pixelization", lambda f: f.grids.pixelization),
    ]


_FIT_CLS = []


def _fit_cls():
    import autoarray as aa
    if not _FIT_CLS:
        class VPFit(aa.FitImaging):
            def __init__(self, dataset, use_mask_in_fit, model_data, dataset_model=None):
                super().__init__(dataset=dataset, use_mask_in_fit=use_mask_in_fit, dataset_model=dataset_model)
                self._vp_model = model_data

            @property
            def model_data(self):
                return self._vp_model

        _FIT_CLS.append(VPFit)
    return _FIT_CLS[0]


def rebuild_dataset(ds):
    import autoarray as aa
    mask = rebuild("mask", ds.mask)
    data = aa.Array2D(values=np.array(ds.data.native).copy(), mask=mask, store_native=ds.data.store_native)
    noise = aa.Array2D(values=np.array(ds.noise_map.native).copy(), mask=mask, store_native=ds.noise_map.store_native)
    psf = None
    if ds.psf is not None:
        psf = aa.Kernel2D.no_mask(values=np.array(ds.psf.native).copy(), pixel_scales=tuple(ds.psf.pixel_scales), normalize=False)
    return aa.Imaging(data=data, noise_map=noise, psf=psf, over_sampling=ds.over_sampling, use_normalized_psf=False, check_noise_map=False)


class DatasetInterp:
    def __init__(self, ctx):
        self.ctx = ctx
        self.dead = False
        self.pool = []     # ("dataset"|"fit", obj, provenance, extra)
        self.inputs = []
        self.snaps = []
        self.events = []

    def _own(self, desc, arr):
        self.inputs.append((desc, arr, fp(arr)))
        return arr

    def _after(self, what):
        for desc, arr, h in self.inputs:
            self.ctx.check(fp(arr) == h, "dataset/input-mutated/%s" % desc, "caller-owned %s changed after %s" % (desc, what))
        for desc, ref, want in self.snaps:
            self.ctx.check(same(norm(ref), want, rtol=0.0), "dataset/returned-value-changed/%s" % desc,
                           "value returned earlier by %s changed after %s" % (desc, what))

    def _twin(self, i):
        kind, obj, prov, extra = self.pool[i]
        if kind == "dataset" and prov == "ctor":
            return self.root_twin()   # the root dataset must still be what was built from the raw inputs
        if kind == "dataset":
            return rebuild_dataset(obj)
        ds_twin = rebuild_dataset(obj.dataset)
        import autoarray as aa
        model = aa.Array2D(values=np.array(extra["model"]).copy(), mask=ds_twin.mask, store_native=extra["model"].store_native)
        dm = aa.DatasetModel(background_sky_level=extra["sky"]) if extra["sky"] else None
        return _fit_cls()(dataset=ds_twin, use_mask_in_fit=extra["use_mask"], model_data=model, dataset_model=dm)

    def _read(self, i, qi, twin=None):
        kind, obj, prov, extra = self.pool[i]
        qs = _q_dataset() if kind == "dataset" else _q_fit()
        name, fn = qs[qi % len(qs)]
        want = norm(_call(fn, twin if twin is not None else self._twin(i)))
        got_raw = _call(fn, obj)
        got = norm(got_raw)
        key = "dataset/%s/%s/%s" % (kind, prov, name.split(".")[0])
        self.ctx.check(same(got, want), key, lambda: "%s.%s (%s) after history %s: got %s, fresh twin gives %s" % (
            kind, name, prov, self.events[-6:], short(got), short(want)))
        if hasattr(got_raw, "_array") or isinstance(got_raw, np.ndarray):
            if len(self.snaps) < 40:
                self.snaps.append(("%s.%s" % (kind, name), got_raw, got))
        return name

    def apply(self, op, a):
        import autoarray as aa
        ctx = self.ctx
        if op == "setup":
            h, w = a["shape"]
            ps = tuple(a["pixel_scales"]); origin = tuple(a["origin"])
            data_raw = self._own("data-values", np.resize(np.asarray(a["data"], dtype=float), h * w).reshape(h, w).copy())
            noise_raw = self._own("noise-values", (np.abs(np.resize(np.asarray(a["noise"], dtype=float), h * w)) + 0.2).reshape(h, w).copy())
            psf_raw = self._own("psf-values", np.asarray(a["kernel"], dtype=float).copy())
            def make(d_raw, n_raw, p_raw):
                full = aa.Mask2D.all_false(shape_native=(h, w), pixel_scales=ps, origin=origin)
                sn = bool(a.get("store_native", False))
                data = aa.Array2D(values=d_raw, mask=full, store_native=sn)
                noise = aa.Array2D(values=n_raw, mask=full, store_native=sn)
                psf = aa.Kernel2D.no_mask(values=p_raw, pixel_scales=ps, normalize=False)
                osd = aa.OverSamplingDataset(pixelization=aa.OverSamplingUniform(sub_size=a["sub_pix"])) if a["sub_pix"] else aa.OverSamplingDataset()
                return aa.Imaging(data=data, noise_map=noise, psf=psf, over_sampling=osd, use_normalized_psf=a["normalize"])
            ds = make(data_raw, noise_raw, psf_raw)
            self.root_twin = lambda: make(data_raw.copy(), noise_raw.copy(), psf_raw.copy())
            ctx.label("root:native-stored" if a.get("store_native") else "root:slim-stored")
            self.pool.append(("dataset", ds, "ctor", None))
            self.shape = (h, w)
            return
        if not self.pool:
            return
        i = a.get("i", 0) % len(self.pool)
        kind, obj, prov, extra = self.pool[i]
        if op == "read":
            name = self._read(i, a["q"])
            if any(e[0] == "derive" for e in self.events) and any(e[0] == "read" for e in self.events):
                ctx.nt(True)
            self.events.append(("read", i, name))
        elif op == "audit":
            qs = _q_dataset() if kind == "dataset" else _q_fit()
            order = list(range(len(qs)))
            if a["rev"]:
                order.reverse()
            twin = self._twin(i)  # one pristine twin for the whole audit (keeps the audit affordable)
            for qi in order:
                self._read(i, qi, twin=twin)
            self.events.append(("audit", i, "*"))
        elif op == "derive" and kind == "dataset" and len(self.pool) < 8:
            d = ["apply_mask", "apply_mask", "apply_noise_scaling", "apply_noise_scaling_snr", "apply_over_sampling", "trimmed", "fit", "fit"][a["d"] % 8]
            h, w = obj.shape_native
            bits = a["bits"]
            m = np.array([[bool((bits >> ((y * w + x) % 40)) & 1) for x in range(w)] for y in range(h)])
            m[0, :] = True; m[-1, :] = True; m[:, 0] = True; m[:, -1] = True
            if m.all():
                m[h // 2, w // 2] = False
            new = None
            try:
                new = self._derive_dataset(obj, d, m, a, bits, i, prov)
            except aa.exc.DatasetException:
                ctx.label("derive:rejected-by-library")   # e.g. noise scaling that yields a non-positive noise map
                new = None
            if new is not None:
                self.pool.append(("dataset", new, d, None))
                self.events.append(("derive", i, d))
                ctx.label("derive:%s" % d)
                if any(e[0] in ("read", "audit") and e[1] == i for e in self.events):
                    ctx.label("history:derivation-after-read")
        self._after("%s %s" % (op, a))

    def _derive_dataset(self, obj, d, m, a, bits, i, prov):
        import autoarray as aa
        ctx = self.ctx
        h, w = obj.shape_native
        if d == "apply_mask":
            um = getattr(obj, "unmasked", None)
            if not (obj.mask.is_all_false or (um is not None and tuple(um.shape_native) == tuple(obj.shape_native))):
                return None  # apply_mask re-masks the remembered unmasked dataset (documented usage); it must exist and share the frame
            raw = self._own("apply_mask-mask", m.copy())
            return obj.apply_mask(mask=aa.Mask2D(mask=raw, pixel_scales=tuple(obj.pixel_scales), origin=tuple(obj.mask.origin)))
        if d in ("apply_noise_scaling", "apply_noise_scaling_snr"):
            if not obj.mask.is_all_false:
                return None
            raw = self._own("noise_scaling-mask", m.copy())
            mk = aa.Mask2D(mask=raw, pixel_scales=tuple(obj.pixel_scales), origin=tuple(obj.mask.origin))
            if d == "apply_noise_scaling":
                return obj.apply_noise_scaling(mask=mk, noise_value=1.0e4)
            return obj.apply_noise_scaling(mask=mk, signal_to_noise_value=2.0)
        if d == "apply_over_sampling":
            return obj.apply_over_sampling(over_sampling=aa.OverSamplingDataset(uniform=aa.OverSamplingUniform(sub_size=2),
                                                                                 pixelization=aa.OverSamplingUniform(sub_size=1 + bits % 3)))
        if d == "trimmed":
            if h < 5 or w < 5:
                return None
            return obj.trimmed_after_convolution_from(kernel_shape=(3, 3))
        if d == "fit":
            model = obj.data * 0.5 + 0.25
            use_mask = bool(bits & 1)
            sky = 0.5 if bits & 2 else 0.0
            dm = aa.DatasetModel(background_sky_level=sky) if sky else None
            fit = _fit_cls()(dataset=obj, use_mask_in_fit=use_mask, model_data=model, dataset_model=dm)
            self.pool.append(("fit", fit, "fit", {"model": model, "use_mask": use_mask, "sky": sky}))
            self.events.append(("derive", i, "fit"))
            ctx.label("derive:fit")
        return None

    def finish(self):
        self.ctx.label("pool:%d" % min(len(self.pool), 6), "reads:%d+" % (5 * (len([e for e in self.events if e[0] in ("read", "audit")]) // 5)))


def dataset_machine(run):
    from hypothesis.stateful import rule, initialize
    Base = machine_base(run, DatasetInterp)

    class DatasetMachine(Base):
        @initialize(shape=st.tuples(st.integers(5, 7), st.integers(5, 7)).map(list), data=st.lists(gens.reals(-5, 10), min_size=6, max_size=12),
                    noise=st.lists(gens.reals(0.1, 3), min_size=6, max_size=12), kernel=gens.kernels(max_side=3, kinds=("nonneg", "normalised"), min_side=3).map(lambda k: k["values"]),
                    pixel_scales=gens.pixel_scales(), origin=gens.origins(mag=5.0), sub_pix=st.sampled_from([0, 1, 2]), normalize=st.booleans(),
                    store_native=st.booleans())
        def setup(self, **a):
            self.op("setup", **a)

        @rule(i=st.integers(0, 7), q=st.integers(0, 21))
        def read(self, i, q):
            self.op("read", i=i, q=q)

        @rule(i=st.integers(0, 7), q1=st.integers(0, 21), q2=st.integers(0, 21))
        def read_two(self, i, q1, q2):
            self.op("read", i=i, q=q1)
            self.op("read", i=i, q=q2)

        @rule(i=st.integers(0, 7), rev=st.booleans())
        def audit(self, i, rev):
            self.op("audit", i=i, rev=rev)

        @rule(i=st.integers(0, 7), d=st.integers(0, 7), bits=st.integers(0, 2 ** 40 - 1))
        def derive(self, i, d, bits):
            self.op("derive", i=i, d=d, bits=bits)

    return DatasetMachine


# ---------------------------------------------------------------------------------------------
# machine 3: inversion / mappers / valued mapper
# ---------------------------------------------------------------------------------------------
def _dictvals(d, objs):
    return tuple(d[o] for o in objs)


def _q_inversion():
    return [
        ("data_vector", lambda t: t.inv.data_vector),
        ("curvature_matrix", lambda t: t.inv.curvature_matrix),
        ("regularization_matrix", lambda t: t.inv.regularization_matrix),
        ("curvature_reg_matrix", lambda t: t.inv.curvature_reg_matrix),
        ("reconstruction", lambda t: t.inv.reconstruction),
        ("reconstruction_dict", lambda t: _dictvals(t.inv.reconstruction_dict, t.objs)),
        ("mapped_reconstructed_data", lambda t: t.inv.mapped_reconstructed_data),
        ("mapped_reconstructed_image", lambda t: t.inv.mapped_reconstructed_image),
        ("mapped_reconstructed_data_dict", lambda t: _dictvals(t.inv.mapped_reconstructed_data_dict, t.objs)),
        ("data_subtracted_dict", lambda t: _dictvals(t.inv.data_subtracted_dict, t.objs)),
        ("regularization_term", lambda t: t.inv.regularization_term),
        ("log_det_curvature_reg_matrix_term", lambda t: t.inv.log_det_curvature_reg_matrix_term),
        ("log_det_regularization_matrix_term", lambda t: t.inv.log_det_regularization_matrix_term),
        ("operated_mapping_matrix", lambda t: t.inv.operated_mapping_matrix),
        ("mapping_matrix", lambda t: t.inv.mapping_matrix),
        ("reconstruction_noise_map", lambda t: t.inv.reconstruction_noise_map),
        ("mapper_edge_pixel_list", lambda t: t.inv.mapper_edge_pixel_list),
        ("no_regularization_index_list", lambda t: t.inv.no_regularization_index_list),
        ("total_params", lambda t: t.inv.total_params),
        ("dataset.data", lambda t: t.dataset.data),
        ("dataset.noise_map", lambda t: t.dataset.noise_map),
        ("dataset.w_tilde.curvature_preload", lambda t: t.dataset.w_tilde.curvature_preload),
        ("dataset.convolver.image_frame_1d_kernels", lambda t: t.dataset.convolver.image_frame_1d_kernels),
    ]


def _q_linear_obj():
    def mapper_only(f):
        return lambda o: f(o) if hasattr(o, "mapper_grids") else None
    return [
        ("mapping_matrix", lambda o: o.mapping_matrix),
        ("params", lambda o: o.params),
        ("regularization_matrix", lambda o: o.regularization_matrix if o.regularization is not None else None),
        ("neighbors", lambda o: (np.array(o.neighbors), np.array(o.neighbors.sizes)) if o.neighbors is not None else None),
        ("unique_mappings", lambda o: (o.unique_mappings.data_to_pix_unique, o.unique_mappings.data_weights, o.unique_mappings.pix_lengths)),
        ("pix_sub_weights", mapper_only(lambda o: (o.pix_sub_weights.mappings, o.pix_sub_weights.sizes, o.pix_sub_weights.weights))),
        ("sub_slim_indexes_for_pix_index", mapper_only(lambda o: tuple(tuple(x) for x in o.sub_slim_indexes_for_pix_index))),
        ("pixel_signals", mapper_only(lambda o: o.pixel_signals_from(signal_scale=1.0))),
        ("data_weight_total_for_pix", mapper_only(lambda o: o.data_weight_total_for_pix_from())),
        ("edge_pixel_list", mapper_only(lambda o: o.edge_pixel_list)),
        ("source_plane_mesh_grid", mapper_only(lambda o: np.array(o.source_plane_mesh_grid))),
        ("source_plane_data_grid", mapper_only(lambda o: np.array(o.source_plane_data_grid))),
        ("mesh_neighbors", mapper_only(lambda o: np.array(o.source_plane_mesh_grid.neighbors))),
        ("over_sampled_grid", mapper_only(lambda o: o.over_sampler.over_sampled_grid)),
        # mesh-level quantities (Delaunay meshes; on other meshes the attribute error is the value for obj and twin alike)
        ("mesh.voronoi_pixel_areas", mapper_only(lambda o: o.source_plane_mesh_grid.voronoi_pixel_areas)),
        ("mesh.areas_for_magnification", mapper_only(lambda o: o.source_plane_mesh_grid.areas_for_magnification)),
        ("mesh.voronoi_pixel_areas_for_split", mapper_only(lambda o: o.source_plane_mesh_grid.voronoi_pixel_areas_for_split)),
        ("mesh.split_cross", mapper_only(lambda o: o.source_plane_mesh_grid.split_cross)),
        ("mesh.edge_pixel_list", mapper_only(lambda o: o.source_plane_mesh_grid.edge_pixel_list)),
    ]


def _q_valued():
    return [
        ("values_masked", lambda v: v.values_masked),
        ("max_pixel_list", lambda v: v.max_pixel_list_from(total_pixels=2, filter_neighbors=False)),
        ("max_pixel_list_filtered", lambda v: v.max_pixel_list_from(total_pixels=2, filter_neighbors=True)),
        ("max_pixel_centre", lambda v: v.max_pixel_centre),
        ("mapped_reconstructed_image", lambda v: v.mapped_reconstructed_image_from()),
        ("magnification_via_mesh", lambda v: v.magnification_via_mesh_from()),
        ("interpolated_array", lambda v: v.interpolated_array_from(shape_native=(5, 5))),
        ("values", lambda v: v.values),
        ("mapper.mapping_matrix", lambda v: v.mapper.mapping_matrix),
    ]


class Twin:
    pass


VALUED_VALUES_KEY = "inversion/valued-mapper/values_masked-overwrites-caller-values"


class InversionInterp:
    """One object graph (dataset + linear objects) shared by several inversions and valued mappers."""

    def __init__(self, ctx):
        self.ctx = ctx
        self.dead = False
        self.case = None
        self.inputs = []
        self.snaps = []
        self.events = []
        self.invs = []      # (Twin-like holder, spec)
        self.valued = []    # (MapperValued, spec)
        self.guard = []     # (description, object, vars snapshot)

    def _own(self, desc, arr):
        self.inputs.append((desc, arr, fp(arr)))
        return arr

    def _settings(self, spec):
        import autoarray as aa
        return aa.SettingsInversion(use_w_tilde=spec["use_w"], use_positive_only_solver=spec["positive"],
                                    positive_only_uses_p_initial=True, force_edge_pixels_to_zeros=spec["force_edge"],
                                    no_regularization_add_to_curvature_diag_value=1e-3)

    def _build(self, spec, scene_objs=None, own=None):
        """Builds (or reuses) the object graph and an inversion according to spec."""
        import autoarray as aa
        t = Twin()
        if scene_objs is None:
            sc = scene.build_scene(self.case, own=own) if own else scene.build_scene(self.case)
            t.dataset, t.objs = sc.dataset, _ordered(sc.objs, spec.get("order", 0))
        else:
            t.dataset, t.objs = scene_objs
        if spec["defaults"]:
            t.settings = None
            t.inv = aa.Inversion(dataset=t.dataset, linear_obj_list=t.objs)
        else:
            t.settings = self._settings(spec)
            t.preloads = aa.Preloads()
            t.inv = aa.Inversion(dataset=t.dataset, linear_obj_list=t.objs, settings=t.settings, preloads=t.preloads)
        return t

    def _after(self, what):
        for desc, arr, h in self.inputs:
            key = VALUED_VALUES_KEY if desc == "valued-values" else "inversion/input-mutated/%s" % desc
            self.ctx.check(fp(arr) == h, key, "caller-owned %s changed after %s" % (desc, what))
        for desc, ref, want in self.snaps:
            key = VALUED_VALUES_KEY if desc in ("valued.values", "valued.values_masked") else "inversion/returned-value-changed/%s" % desc
            self.ctx.check(same(norm(ref), want, rtol=0.0), key, "value returned earlier by %s changed after %s" % (desc, what))
        for desc, obj, snap in self.guard:
            now = _vars_snapshot(obj)
            self.ctx.check(now == snap, "inversion/argument-object-mutated/%s" % desc, "%s attributes changed after %s: %s -> %s" % (desc, what, snap, now))

    def _compare(self, key, name, got_raw, want_raw, snap_ok=True):
        got, want = norm(got_raw), norm(want_raw)
        self.ctx.check(same(got, want), key, lambda: "%s after history %s: got %s, fresh twin gives %s" % (name, self.events[-6:], short(got), short(want)))
        if snap_ok and (hasattr(got_raw, "_array") or isinstance(got_raw, np.ndarray)) and len(self.snaps) < 40:
            self.snaps.append((name, got_raw, got))

    def apply(self, op, a):
        import autoarray as aa
        ctx = self.ctx
        if op == "setup":
            self.case = a["case"]
            scene.scene_labels(self.case, ctx)
            sc = scene.build_scene(self.case, own=self._own)
            self.dataset, self.objs = sc.dataset, sc.objs
            import inspect
            from autoarray.inversion.inversion import factory
            for fn in (factory.inversion_from, factory.inversion_imaging_from):
                for pname, p in inspect.signature(fn).parameters.items():
                    if p.default is not inspect.Parameter.empty and p.default is not None and not isinstance(p.default, (bool, int, float, str)):
                        self.guard.append(("default-%s-of-%s" % (pname, fn.__name__), p.default, _vars_snapshot(p.default)))
            return
        if self.case is None:
            return
        if op == "invert":
            if len(self.invs) >= 4:
                return
            spec = {"use_w": a["use_w"], "positive": a["positive"], "force_edge": a["force_edge"], "defaults": a["defaults"],
                    "order": a.get("order", 0)}
            t = self._build(spec, scene_objs=(self.dataset, _ordered(self.objs, spec["order"])))
            if t.settings is not None:
                self.guard.append(("settings", t.settings, _vars_snapshot(t.settings)))
                self.guard.append(("preloads", t.preloads, _vars_snapshot(t.preloads)))
            self.invs.append((t, spec))
            self.events.append(("invert", len(self.invs) - 1, "defaults" if spec["defaults"] else ("w" if spec["use_w"] else "m")))
            if len(self.invs) >= 2:
                ctx.label("history:second-inversion")
        elif op == "read_inv":
            if not self.invs:
                return
            k = a["k"] % len(self.invs)
            t, spec = self.invs[k]
            qs = _q_inversion()
            name, fn = qs[a["q"] % len(qs)]
            twin = self._build(spec)
            want = _call(fn, twin)
            got = _call(fn, t)
            self._compare("inversion/inversion/%s" % name, "inversion[%d].%s" % (k, name), got, want, snap_ok=(name != "curvature_matrix"))
            if any(e[0] in ("read_inv", "read_obj", "read_valued") for e in self.events):
                ctx.nt(True)
            self.events.append(("read_inv", k, name))
        elif op == "read_obj":
            j = a["j"] % len(self.objs)
            qs = _q_linear_obj()
            name, fn = qs[a["q"] % len(qs)]
            twin_objs = scene.build_scene(self.case).objs
            want = _call(fn, twin_objs[j])
            got = _call(fn, self.objs[j])
            self._compare("inversion/linear_obj/%s" % name, "linear_obj[%d].%s" % (j, name), got, want)
            if any(e[0] in ("read_inv", "read_valued") for e in self.events):
                ctx.nt(True)
            self.events.append(("read_obj", j, name))
        elif op == "valued":
            mappers = [j for j, o in enumerate(self.objs) if hasattr(o, "mapper_grids")]
            if not mappers or len(self.valued) >= 3:
                return
            j = mappers[a["j"] % len(mappers)]
            n = self.objs[j].params
            vals = self._own("valued-values", np.resize(np.asarray(a["values"], dtype=float), n).copy())
            pm = None
            if a["use_mask"]:
                pm = self._own("valued-pixel-mask", np.array([bool((a["bits"] >> (i % 30)) & 1) for i in range(n)]))
            self.valued.append((aa.MapperValued(mapper=self.objs[j], values=vals, mesh_pixel_mask=pm), {"j": j, "vals": vals.copy(), "pm": None if pm is None else pm.copy()}))
            self.events.append(("valued", j, "mask" if pm is not None else "nomask"))
            ctx.label("history:valued-mapper" + ("-with-mask" if pm is not None else ""))
        elif op == "read_valued":
            if not self.valued:
                return
            v, vs = self.valued[a["k"] % len(self.valued)]
            qs = _q_valued()
            name, fn = qs[a["q"] % len(qs)]
            twin_objs = scene.build_scene(self.case).objs
            tv = aa.MapperValued(mapper=twin_objs[vs["j"]], values=vs["vals"].copy(), mesh_pixel_mask=None if vs["pm"] is None else vs["pm"].copy())
            want = _call(fn, tv)
            got = _call(fn, v)
            # every manifestation of one root cause (values_masked writes into the caller's values) shares one key
            depends_on_values = vs["pm"] is not None and name in ("values", "max_pixel_list", "max_pixel_list_filtered", "max_pixel_centre",
                                                                   "interpolated_array", "magnification_via_mesh", "mapped_reconstructed_image", "values_masked")
            mutated = depends_on_values and fp(v.values) != fp(vs["vals"])
            self._compare(VALUED_VALUES_KEY if (mutated and name == "values") else "inversion/valued/%s" % name, "valued.%s" % name, got, want)
            ctx.nt(True)
            self.events.append(("read_valued", a["k"], name))
        self._after("%s %s" % (op, {k: v for k, v in a.items() if k not in ("case", "values")}))

    def finish(self):
        self.ctx.label("inversions:%d" % len(self.invs), "valued:%d" % len(self.valued), "reads:%d+" % (5 * (len([e for e in self.events if e[0].startswith("read")]) // 5)))


def _ordered(objs, order):
    """Object list variants for later inversions on the same graph: 0 = as given, 1 = reversed, 2 = first object only."""
    if order == 1:
        return list(reversed(objs))
    if order == 2:
        return list(objs[:1])
    return list(objs)


def _vars_snapshot(obj):
    out = []
    for k, v in sorted(vars(obj).items()):
        if isinstance(v, np.ndarray):
            out.append((k, fp(v)))
        elif isinstance(v, (bool, int, float, str, type(None), tuple)):
            out.append((k, repr(v)))
        else:
            out.append((k, "id:%d" % id(v)))
    return tuple(out)


def inversion_machine(run):
    from hypothesis.stateful import rule, initialize
    Base = machine_base(run, InversionInterp)

    class InversionMachine(Base):
        @initialize(case=scene.scenarios(min_objs=1, max_objs=3, img_kwargs=dict(max_inner=4, max_k=3, kernel_kinds=("nonneg", "normalised", "signed")),
                                         obj_kwargs=dict(max_sub=2, max_mesh=4, reg_types=("constant", "adaptive_brightness", "constant_split"))),
                    use_w=st.booleans(), positive=st.booleans(), force_edge=st.booleans())
        def setup(self, case, use_w, positive, force_edge):
            self.op("setup", case=case)
            self.op("invert", use_w=use_w, positive=positive, force_edge=force_edge, defaults=False, order=0)

        @rule(use_w=st.booleans(), positive=st.booleans(), force_edge=st.booleans(), defaults=st.sampled_from([False, False, False, True]),
              order=st.sampled_from([0, 0, 1, 2]))
        def invert(self, use_w, positive, force_edge, defaults, order):
            self.op("invert", use_w=use_w, positive=positive, force_edge=force_edge, defaults=defaults, order=order)

        @rule(k=st.integers(0, 3), q=st.integers(0, 22))
        def read_inv(self, k, q):
            self.op("read_inv", k=k, q=q)

        @rule(k=st.integers(0, 3), q=st.integers(0, 22))
        def read_inv_b(self, k, q):
            self.op("read_inv", k=k, q=q)

        @rule(k=st.integers(0, 3), q1=st.integers(0, 22), q2=st.integers(0, 22), q3=st.integers(0, 22))
        def read_inv_three(self, k, q1, q2, q3):
            self.op("read_inv", k=k, q=q1)
            self.op("read_inv", k=k, q=q2)
            self.op("read_inv", k=k, q=q3)

        @rule(j=st.integers(0, 2), q=st.integers(0, 18))
        def read_obj(self, j, q):
            self.op("read_obj", j=j, q=q)

        @rule(j=st.integers(0, 2), q1=st.integers(13, 18), q2=st.integers(13, 18))
        def read_mesh_two(self, j, q1, q2):
            self.op("read_obj", j=j, q=q1)
            self.op("read_obj", j=j, q=q2)

        @rule(j=st.integers(0, 2), values=st.lists(gens.reals(-2, 5), min_size=3, max_size=8), use_mask=st.booleans(), bits=st.integers(0, 2 ** 30 - 1))
        def valued(self, j, values, use_mask, bits):
            self.op("valued", j=j, values=values, use_mask=use_mask, bits=bits)

        @rule(k=st.integers(0, 2), q=st.integers(0, 8))
        def read_valued(self, k, q):
            self.op("read_valued", k=k, q=q)

    return InversionMachine


# ---------------------------------------------------------------------------------------------
# simulator determinism (@given)
# ---------------------------------------------------------------------------------------------
@st.composite
def simulator_case(draw):
    h = draw(st.integers(2, 6)); w = draw(st.integers(2, 6))
    return {
        "shape": [h, w],
        "image": draw(st.lists(gens.reals(0.5, 20), min_size=h * w, max_size=h * w)),
        "kernel": draw(gens.kernels(max_side=3, kinds=("nonneg", "normalised")))["values"],
        "noise_seed": draw(st.integers(0, 2 ** 31 - 1)),
        "global_seed_a": draw(st.integers(0, 2 ** 31 - 1)),
        "global_seed_b": draw(st.integers(0, 2 ** 31 - 1)),
        "advance": draw(st.integers(0, 50)),
        "exposure_time": draw(st.sampled_from([1.0, 50.0, 300.0])),
        "background": draw(st.sampled_from([0.0, 0.5])),
        "add_noise": draw(st.booleans()),
        "noise_in_map": draw(st.booleans()),
    }


def body_simulator(case, ctx):
    import autoarray as aa
    h, w = case["shape"]
    ctx.nt(case["add_noise"] or case["noise_in_map"])
    ctx.label("noise:on" if case["add_noise"] else "noise:off")

    def run(global_seed, advance):
        np.random.seed(global_seed)
        if advance:
            np.random.random(advance)
        img_raw = np.asarray(case["image"], dtype=float).reshape(h, w)
        image = aa.Array2D.no_mask(values=img_raw.copy(), pixel_scales=0.5)
        psf = aa.Kernel2D.no_mask(values=np.asarray(case["kernel"], dtype=float), pixel_scales=0.5, normalize=False)
        before = fp(np.array(image))
        sim = aa.SimulatorImaging(exposure_time=case["exposure_time"], psf=psf, background_sky_level=case["background"],
                                  add_poisson_noise_to_data=case["add_noise"], include_poisson_noise_in_noise_map=case["noise_in_map"],
                                  noise_seed=case["noise_seed"])
        ds = sim.via_image_from(image=image)
        ctx.check(fp(np.array(image)) == before, "simulator/input-mutated", "via_image_from changed the input image")
        return np.array(ds.data.native).copy(), np.array(ds.noise_map.native).copy()

    d1, n1 = run(case["global_seed_a"], 0)
    d2, n2 = run(case["global_seed_b"], case["advance"])
    ctx.equal(d2, d1, "simulator/seeded-data-depends-on-global-rng", "data of two simulations with noise_seed=%d" % case["noise_seed"])
    ctx.equal(n2, n1, "simulator/seeded-noise-map-depends-on-global-rng", "noise map of two simulations with noise_seed=%d" % case["noise_seed"])


# ---------------------------------------------------------------------------------------------
# seeded noise helpers of dataset/preprocess.py and the interferometer simulator (@given)
# ---------------------------------------------------------------------------------------------
@st.composite
def seeded_helper_case(draw):
    h = draw(st.integers(1, 5)); w = draw(st.integers(1, 5))
    nv = draw(st.integers(1, 6))
    return {
        "shape": [h, w],
        "image": draw(st.lists(gens.reals(0.5, 20), min_size=h * w, max_size=h * w)),
        "exposure": draw(st.lists(st.sampled_from([1.0, 20.0, 300.0]), min_size=h * w, max_size=h * w)),
        "sigma": draw(st.sampled_from([0.1, 1.0, 7.5])),
        "uv": draw(st.lists(gens.reals(-2e4, 2e4), min_size=2 * nv, max_size=2 * nv)),
        "seed": draw(st.integers(0, 2 ** 31 - 1)),
        "global_seed_a": draw(st.integers(0, 2 ** 31 - 1)),
        "global_seed_b": draw(st.integers(0, 2 ** 31 - 1)),
        "advance": draw(st.integers(0, 50)),
    }


def body_seeded_helpers(case, ctx):
    import autoarray as aa
    from autoarray.dataset import preprocess
    h, w = case["shape"]
    ctx.nt(True)
    img_raw = np.asarray(case["image"], dtype=float).reshape(h, w)
    exp_raw = np.asarray(case["exposure"], dtype=float).reshape(h, w)
    uv = np.asarray(case["uv"], dtype=float).reshape(-1, 2)
    nv = uv.shape[0]
    vis_raw = (np.arange(1, nv + 1) * 0.75) + 1j * (np.arange(nv) - 1.5)

    def run(global_seed, advance):
        np.random.seed(global_seed)
        if advance:
            np.random.random(advance)
        out = {}
        image = aa.Array2D.no_mask(values=img_raw.copy(), pixel_scales=0.5)
        exposure = aa.Array2D.no_mask(values=exp_raw.copy(), pixel_scales=0.5)
        vis = aa.Visibilities(visibilities=vis_raw.copy())
        befores = (fp(np.array(image)), fp(np.array(exposure)), fp(np.array(vis)))
        step = [0]

        def scramble():
            # every helper starts from a global RNG state that differs between the two runs (a helper that seeds
            # leaves the generator in a seed-determined state, which would hide an unseeded helper called after it)
            step[0] += 1
            np.random.seed((global_seed + 7919 * step[0]) % (2 ** 32))
            if advance:
                np.random.random(advance)

        scramble()
        out["poisson_noise"] = np.array(preprocess.poisson_noise_via_data_eps_from(data_eps=image, exposure_time_map=exposure, seed=case["seed"]))
        scramble()
        out["poisson_data"] = np.array(preprocess.data_eps_with_poisson_noise_added(data_eps=image, exposure_time_map=exposure, seed=case["seed"]))
        scramble()
        out["gaussian_noise"] = np.array(preprocess.gaussian_noise_via_shape_and_sigma_from(shape=(h, w), sigma=case["sigma"], seed=case["seed"]))
        scramble()
        out["gaussian_data"] = np.array(preprocess.data_with_gaussian_noise_added(data=image, sigma=case["sigma"], seed=case["seed"]))
        scramble()
        out["complex_gaussian_data"] = np.array(preprocess.data_with_complex_gaussian_noise_added(data=vis, sigma=case["sigma"], seed=case["seed"]))
        scramble()
        sim = aa.SimulatorInterferometer(uv_wavelengths=uv.copy(), exposure_time=100.0, noise_sigma=case["sigma"], noise_seed=case["seed"])
        ds = sim.via_image_from(image=image)
        out["interferometer_data"] = np.array(ds.data)
        out["interferometer_noise_map"] = np.array(ds.noise_map)
        afters = (fp(np.array(image)), fp(np.array(exposure)), fp(np.array(vis)))
        for name, b, a in zip(("image", "exposure-time-map", "visibilities"), befores, afters):
            ctx.check(a == b, "seeded-helpers/input-mutated", "%s changed by the seeded noise helpers" % name)
        return out

    o1 = run(case["global_seed_a"], 0)
    o2 = run(case["global_seed_b"], case["advance"])
    for k in o1:
        ctx.equal(o2[k], o1[k], "seeded-helpers/%s/depends-on-global-rng" % k, "two evaluations with seed=%d" % case["seed"])
    # the noisy data are the clean data plus the noise drawn with the same seed
    ctx.close(np.ravel(o1["poisson_data"]), img_raw.ravel() + np.ravel(o1["poisson_noise"]), "seeded-helpers/poisson-data-vs-noise", rtol=1e-12, atol=1e-12, what="data+noise(seed)")
    ctx.check(not np.array_equal(o1["gaussian_data"], img_raw), "seeded-helpers/no-noise-added", "gaussian noise of sigma %s left the data unchanged" % case["sigma"])


# ---------------------------------------------------------------------------------------------
# interferometer factory: argument objects are not modified (@given)
# ---------------------------------------------------------------------------------------------
@st.composite
def interferometer_case(draw):
    mask = draw(gens.masks(lo=3, hi=5, ring=1, min_unmasked=3))
    nv = draw(st.integers(2, 5))
    return {
        "mask": mask, "pixel_scales": draw(gens.pixel_scales(iso=True)),
        "vis": draw(st.lists(gens.reals(-3, 3), min_size=2 * nv, max_size=2 * nv)),
        "noise": draw(st.lists(gens.positives(0.2, 3), min_size=2 * nv, max_size=2 * nv)),
        "uv": draw(st.lists(st.floats(-5e4, 5e4), min_size=2 * nv, max_size=2 * nv)),
        "use_w_tilde": draw(st.booleans()), "use_defaults": draw(st.booleans()),
        "mesh": [draw(st.integers(3, 4)), draw(st.integers(3, 4))],
    }


def body_interferometer(case, ctx):
    import inspect
    import autoarray as aa
    from autoarray.inversion.inversion import factory
    m = np.asarray(case["mask"], dtype=bool)
    ps = tuple(case["pixel_scales"])
    nv = len(case["vis"]) // 2
    ctx.nt(True)
    ctx.label("settings:defaults" if case["use_defaults"] else "settings:explicit-w%d" % case["use_w_tilde"])

    def build():
        mask = aa.Mask2D(mask=m.copy(), pixel_scales=ps)
        vis_raw = (np.asarray(case["vis"][:nv]) + 1j * np.asarray(case["vis"][nv:])).astype("complex128")
        noise_raw = (np.asarray(case["noise"][:nv]) + 1j * np.asarray(case["noise"][nv:])).astype("complex128")
        uv_raw = np.asarray(case["uv"], dtype=float).reshape(nv, 2).copy()
        ds = aa.Interferometer(data=aa.Visibilities(visibilities=vis_raw), noise_map=aa.VisibilitiesNoiseMap(visibilities=noise_raw),
                               uv_wavelengths=uv_raw, real_space_mask=mask, transformer_class=aa.TransformerDFT)
        osamp = aa.OverSamplerUniform(mask=mask, sub_size=1)
        src = aa.Grid2DIrregular(values=np.asarray(osamp.over_sampled_grid).copy())
        mesh = aa.Mesh2DRectangular.overlay_grid(grid=src, shape_native=tuple(case["mesh"]))
        mapper = aa.Mapper(mapper_grids=aa.MapperGrids(mask=mask, source_plane_data_grid=src, source_plane_mesh_grid=mesh),
                           over_sampler=osamp, regularization=aa.reg.Constant(coefficient=1.0))
        return ds, mapper, (vis_raw, noise_raw, uv_raw)

    defaults = []
    for fn in (factory.inversion_from, factory.inversion_interferometer_from, factory.inversion_imaging_from):
        for pname, p in inspect.signature(fn).parameters.items():
            if p.default is not inspect.Parameter.empty and p.default is not None and not isinstance(p.default, (bool, int, float, str)):
                defaults.append(("default-%s-of-%s" % (pname, fn.__name__), p.default, _vars_snapshot(p.default)))
    ds, mapper, raws = build()
    fps = [fp(r) for r in raws]
    if case["use_defaults"]:
        inv = aa.Inversion(dataset=ds, linear_obj_list=[mapper])
        settings = None
    else:
        settings = aa.SettingsInversion(use_w_tilde=case["use_w_tilde"], use_positive_only_solver=False, no_regularization_add_to_curvature_diag_value=1e-3)
        snap = _vars_snapshot(settings)
        inv = aa.Inversion(dataset=ds, linear_obj_list=[mapper], settings=settings)
    dv = np.array(inv.data_vector).copy()
    cm = np.array(inv.curvature_matrix).copy()
    if settings is not None:
        ctx.check(_vars_snapshot(settings) == snap, "interferometer/settings-argument-mutated",
                  "SettingsInversion passed to aa.Inversion changed: %s -> %s" % (snap, _vars_snapshot(settings)))
    for desc, obj, s0 in defaults:
        ctx.check(_vars_snapshot(obj) == s0, "interferometer/shared-default-mutated/%s" % desc.split("-of-")[0],
                  "%s changed: %s -> %s" % (desc, s0, _vars_snapshot(obj)))
    for r, h, nme in zip(raws, fps, ("visibilities", "noise-map", "uv_wavelengths")):
        ctx.check(fp(r) == h, "interferometer/input-mutated/%s" % nme, "caller-owned %s changed" % nme)
    # order independence: fresh twin, other read order
    ds2, mapper2, _ = build()
    inv2 = aa.Inversion(dataset=ds2, linear_obj_list=[mapper2], settings=aa.SettingsInversion(use_w_tilde=False, use_positive_only_solver=False,
                                                                                             no_regularization_add_to_curvature_diag_value=1e-3))
    cm2 = np.array(inv2.curvature_matrix).copy()
    dv2 = np.array(inv2.data_vector).copy()
    ctx.check(same(dv, dv2) and same(cm, cm2), "interferometer/order-dependence", "data_vector / curvature_matrix differ between read orders")


SUBCHECKS = [
    SubCheck("structures", replay_history(StructInterp), machine=struct_machine, examples={"quick": 1600, "thorough": 16000},
             shards={"quick": 16, "thorough": 16}, steps={"quick": 20, "thorough": 40}),
    SubCheck("dataset", replay_history(DatasetInterp), machine=dataset_machine, examples={"quick": 320, "thorough": 4800},
             shards={"quick": 16, "thorough": 16}, steps={"quick": 15, "thorough": 30}),
    SubCheck("inversion", replay_history(InversionInterp), machine=inversion_machine, examples={"quick": 1600, "thorough": 16000},
             shards={"quick": 16, "thorough": 16}, steps={"quick": 20, "thorough": 40}),
    SubCheck("interferometer", body_interferometer, strategy=interferometer_case(), examples={"quick": 120, "thorough": 1600},
             shards={"quick": 2, "thorough": 8}),
    SubCheck("simulator", body_simulator, strategy=simulator_case(), examples={"quick": 200, "thorough": 3000},
             shards={"quick": 2, "thorough": 8}),
    SubCheck("seeded_helpers", body_seeded_helpers, strategy=seeded_helper_case(), examples={"quick": 150, "thorough": 2000},
             shards={"quick": 1, "thorough": 4}),
]
