"""C11 — queries are pure: no input mutation, no order dependence, deterministic."""
import hashlib

import numpy as np
from hypothesis import strategies as st

from vp import gens, scene
from vp.engine import SubCheck, machine_base, replay_history

PROPERTY = "C11"
RULE = (
    "Three rule-based state machines plus one @given check. structures: pool of Mask2D / Array2D (slim- or native-"
    "stored) / Grid2D (with and without over-sampling) / VectorYX2D / Kernel2D / Visibilities / VisibilitiesNoiseMap / "
    "Grid2DIrregular / ArrayIrregular built from caller-owned arrays; rules = read a quantity from a per-type "
    "catalogue, derive (x*c, x+c, -x, x/c, abs, slice, copy, .slim, .native, apply_mask, resized_from, "
    "padded_before_convolution_from, trimmed_after_convolution_from, subtracted_from, flipped), audit (read every "
    "catalogue quantity). dataset: Imaging -> apply_mask / apply_noise_scaling / apply_over_sampling / "
    "trimmed_after_convolution_from with reads of grids.*, convolver tables, w_tilde tables, S/N map. inversion: "
    "dataset + mappers (+ function list) -> aa.Inversion (both formalisms, explicit or defaulted settings/preloads) "
    "with reads of ~25 inversion / mapper / mesh quantities in generated order and multiplicity, MapperValued "
    "queries, a second inversion built afterwards. Oracle: (a) SHA-1 fingerprints of every caller-owned input "
    "unchanged after every step; (b) pristine twin - the expected value of every read is the one obtained from a "
    "freshly rebuilt object graph (rebuilt from deep-copied raw inputs, or from the derived object's own contents) on "
    "which that quantity is read first (ints exact, floats rtol 1e-12); (c) values previously returned to the caller are "
    "snapshotted and must not change later; (d) settings / preloads objects passed in are attribute-wise unchanged. "
    "simulator: SimulatorImaging(noise_seed=k) twice with the global numpy RNG re-seeded / advanced in between gives "
    "identical datasets. Non-trivial = history contains a read, then a derivation or a different read, then a re-read; "
    "distinct = SHA-1 of the canonical history."
)
ASSUMPTIONS = [
    "the twin oracle compares the implementation with itself on a fresh object graph: it decides order-independence / purity, not the correctness of the values (that is C01-C10, C12-C20)",
    "float comparisons at rtol 1e-12 (same code, same inputs; slack only absorbs BLAS reduction order)",
    "the documented reuse of the curvature-matrix buffer (curvature_reg_matrix adds H into the array previously returned by curvature_matrix and drops the cache entry) is observed through fresh reads only: a previously returned curvature_matrix array is excluded from the returned-value snapshots",
    "a purity fault in a query outside the catalogue is invisible; catalogue sizes are reported as labels",
]
TECHNIQUE = "Hypothesis rule-based state machines over read/derive histories against a pristine-twin model, input fingerprints and returned-value snapshots"


# ---------------------------------------------------------------------------------------------
# value normalisation and comparison
# ---------------------------------------------------------------------------------------------
def norm(v):
    """Turn a returned quantity into something comparable: nested tuple of numpy arrays / scalars."""
    import autoarray as aa
    if v is None or isinstance(v, (bool, int, float, complex, str)):
        return v
    if isinstance(v, (np.bool_, np.integer, np.floating, np.complexfloating)):
        return v.item()
    if isinstance(v, dict):
        return tuple(sorted((str(k), norm(x)) for k, x in v.items()))
    if isinstance(v, (list, tuple)):
        try:
            arr = np.asarray(v)
            if arr.dtype != object:
                return arr.copy()
        except Exception:
            pass
        return tuple(norm(x) for x in v)
    try:
        arr = np.array(v)
        if arr.dtype == object:
            return repr(v)
        extra = []
        for attr in ("pixel_scales", "origin"):
            try:
                extra.append(tuple(float(x) for x in getattr(v, attr)))
            except Exception:
                pass
        if hasattr(v, "mask") and not isinstance(v, np.ndarray):
            try:
                m = np.array(v.mask).copy()
                extra.append(m)
                # native-stored contents: entries at masked pixels are not part of the structure's values
                # (arithmetic on a native-stored structure legitimately leaves arbitrary numbers there)
                if m.dtype == bool and m.ndim == 2 and arr.shape[:2] == m.shape and arr.dtype.kind in "fc":
                    arr = arr.copy()
                    arr[m] = 0
            except Exception:
                pass
        return (arr.copy(),) + tuple(extra) if extra else arr.copy()
    except Exception:
        return repr(v)


def same(a, b, rtol=1e-12):
    if type(a) is tuple or type(b) is tuple:
        if type(a) is not type(b) or len(a) != len(b):
            return False
        return all(same(x, y, rtol) for x, y in zip(a, b))
    if isinstance(a, np.ndarray) or isinstance(b, np.ndarray):
        a = np.asarray(a); b = np.asarray(b)
        if a.shape != b.shape:
            return False
        if a.dtype.kind in "fc" or b.dtype.kind in "fc":
            with np.errstate(all="ignore"):
                fin = np.isfinite(a) & np.isfinite(b)
                ok = np.where(fin, np.abs(a - b) <= rtol * np.maximum(np.abs(a), np.abs(b)) + 1e-300, (a == b) | (np.isnan(a) & np.isnan(b)))
            return bool(np.all(ok))
        return bool(np.array_equal(a, b))
    if isinstance(a, float) or isinstance(b, float):
        try:
            return abs(a - b) <= rtol * max(abs(a), abs(b)) + 1e-300 or (a != a and b != b)
        except Exception:
            return False
    return a == b


def _call(fn, obj):
    """Evaluate a catalogue query; an exception is a value too (the twin must raise the same one)."""
    try:
        return fn(obj)
    except Exception as e:  # compared against the twin, never swallowed silently
        return "raises:%s" % type(e).__name__


def fp(x):
    a = np.ascontiguousarray(np.asarray(x))
    return hashlib.sha1(a.tobytes() + str(a.shape).encode() + str(a.dtype).encode()).hexdigest()


def short(v, n=300):
    s = repr(v)
    return s if len(s) <= n else s[:n] + "..."


# ---------------------------------------------------------------------------------------------
# machine 1: structures
# ---------------------------------------------------------------------------------------------
def _q_mask():
    return [
        ("array", lambda m: np.array(m)),
        ("pixels_in_mask", lambda m: m.pixels_in_mask),
        ("is_all_false", lambda m: m.is_all_false),
        ("is_circular", lambda m: m.is_circular),
        ("circular_radius", lambda m: m.circular_radius if m.is_circular else None),
        ("mask_centre", lambda m: m.mask_centre),
        ("zoom_centre", lambda m: m.zoom_centre),
        ("zoom_offset_scaled", lambda m: m.zoom_offset_scaled),
        ("zoom_region", lambda m: m.zoom_region),
        ("zoom_shape_native", lambda m: m.zoom_shape_native),
        ("shape_native_masked_pixels", lambda m: m.shape_native_masked_pixels),
        ("extent", lambda m: m.geometry.extent),
        ("unmasked_slim", lambda m: m.derive_indexes.unmasked_slim),
        ("edge_slim", lambda m: m.derive_indexes.edge_slim),
        ("border_slim", lambda m: m.derive_indexes.border_slim),
        ("native_for_slim", lambda m: m.derive_indexes.native_for_slim),
        ("grid_unmasked", lambda m: m.derive_grid.unmasked),
        ("grid_edge", lambda m: m.derive_grid.edge),
        ("mask_edge", lambda m: m.derive_mask.edge),
        ("pixel_scales", lambda m: m.pixel_scales),
        ("origin", lambda m: m.origin),
    ]


def _q_array2d():
    return [
        ("array", lambda a: a),
        ("slim", lambda a: a.slim),
        ("native", lambda a: a.native),
        ("binned_across_rows", lambda a: a.binned_across_rows),
        ("binned_across_columns", lambda a: a.binned_across_columns),
        ("zoomed_around_mask", lambda a: a.zoomed_around_mask(buffer=1)),
        ("extent_of_zoomed_array", lambda a: a.extent_of_zoomed_array(buffer=1)),
        ("extent", lambda a: a.geometry.extent),
        ("shape_native", lambda a: a.shape_native),
        ("total_pixels", lambda a: a.total_pixels),
        ("pixel_area", lambda a: a.pixel_area),
        ("unmasked_grid", lambda a: a.unmasked_grid),
        ("mask_edge_slim", lambda a: a.mask.derive_indexes.edge_slim),
        ("sum", lambda a: float(np.sum(np.array(a.slim)))),
    ]


def _q_grid2d():
    return [
        ("array", lambda g: g),
        ("slim", lambda g: g.slim),
        ("native", lambda g: g.native),
        ("is_uniform", lambda g: g.is_uniform),
        ("flipped", lambda g: g.flipped),
        ("in_radians", lambda g: g.in_radians),
        ("scaled_minima", lambda g: g.scaled_minima),
        ("scaled_maxima", lambda g: g.scaled_maxima),
        ("shape_native_scaled_interior", lambda g: g.shape_native_scaled_interior),
        ("extent_with_buffer", lambda g: g.extent_with_buffer_from()),
        ("squared_distances", lambda g: g.squared_distances_to_coordinate_from(coordinate=(0.1, -0.2))),
        ("over_sampled_grid", lambda g: g.over_sampler.over_sampled_grid if g.over_sampling is not None else None),
        ("over_sampler_sub_total", lambda g: g.over_sampler.sub_total if g.over_sampling is not None else None),
        ("mask_border_slim", lambda g: g.mask.derive_indexes.border_slim),
    ]


def _q_vector():
    return [
        ("array", lambda v: v),
        ("slim", lambda v: v.slim),
        ("native", lambda v: v.native),
        ("magnitudes", lambda v: v.magnitudes),
        ("y", lambda v: v.y),
        ("x", lambda v: v.x),
        ("grid", lambda v: v.grid),
        ("average_magnitude", lambda v: v.average_magnitude),
    ]


def _q_kernel():
    return [
        ("array", lambda k: k),
        ("native", lambda k: k.native),
        ("slim", lambda k: k.slim),
        ("normalized", lambda k: k.normalized),
        ("shape_native", lambda k: k.shape_native),
        ("convolved_ones", lambda k: k.convolved_array_from(_ones_like_kernel(k)) if (k.shape_native[0] % 2 and k.shape_native[1] % 2) else None),
    ]


def _ones_like_kernel(k):
    import autoarray as aa
    h, w = k.shape_native
    vals = np.arange((h + 2) * (w + 2), dtype=float).reshape(h + 2, w + 2) % 7
    return aa.Array2D.no_mask(values=vals, pixel_scales=k.pixel_scales)


def _q_vis():
    return [
        ("array", lambda v: v),
        ("ordered_1d", lambda v: v.ordered_1d),
        ("amplitudes", lambda v: v.amplitudes),
        ("phases", lambda v: v.phases),
        ("in_array", lambda v: v.in_array),
        ("in_grid", lambda v: v.in_grid),
        ("shape_slim", lambda v: v.shape_slim),
    ]


def _q_visnoise():
    return [
        ("array", lambda v: v),
        ("ordered_1d", lambda v: v.ordered_1d),
        ("weight_list_ordered_1d", lambda v: v.weight_list_ordered_1d),
        ("in_array", lambda v: v.in_array),
        ("amplitudes", lambda v: v.amplitudes),
    ]


def _q_girr():
    return [
        ("array", lambda g: g),
        ("in_list", lambda g: g.in_list),
        ("scaled_minima", lambda g: g.scaled_minima),
        ("scaled_maxima", lambda g: g.scaled_maxima),
        ("extent_with_buffer", lambda g: g.extent_with_buffer_from()),
        ("distances", lambda g: g.distances_to_coordinate_from(coordinate=(0.3, 0.1))),
        ("furthest", lambda g: g.furthest_distances_to_other_coordinates),
    ]


def _q_airr():
    return [
        ("array", lambda a: a),
        ("in_list", lambda a: a.in_list),
        ("slim", lambda a: a.slim),
    ]


CATALOGUE = {"mask": _q_mask, "array2d": _q_array2d, "grid2d": _q_grid2d, "vector": _q_vector, "kernel": _q_kernel,
             "vis": _q_vis, "visnoise": _q_visnoise, "girr": _q_girr, "airr": _q_airr}


def rebuild(kind, x):
    """A fresh object built from x's own contents through the public constructor.  For native-stored
    structures the stored array is then restored bit-for-bit (the constructor zeroes entries at masked
    pixels, which arithmetic on a native-stored structure legitimately leaves non-zero), so the twin has
    identical contents and no history."""
    t = _rebuild(kind, x)
    if kind in ("array2d", "grid2d", "vector", "kernel"):
        raw = np.array(x).copy()
        if np.array(t).shape == raw.shape:
            t._array = raw
    return t


def _rebuild(kind, x):
    import autoarray as aa
    if kind == "mask":
        return aa.Mask2D(mask=np.array(x).copy(), pixel_scales=tuple(x.pixel_scales), origin=tuple(x.origin))
    if kind == "array2d":
        return aa.Array2D(values=np.array(x).copy(), mask=rebuild("mask", x.mask), store_native=x.store_native, header=x.header)
    if kind == "grid2d":
        return aa.Grid2D(values=np.array(x).copy(), mask=rebuild("mask", x.mask), store_native=(np.array(x).ndim == 3),
                         over_sampling=x.over_sampling)
    if kind == "vector":
        return aa.VectorYX2D(values=np.array(x).copy(), grid=rebuild("grid2d", x.grid), mask=rebuild("mask", x.mask),
                             store_native=(np.array(x).ndim == 3))
    if kind == "kernel":
        return aa.Kernel2D(values=np.array(x).copy(), mask=rebuild("mask", x.mask), store_native=x.store_native, header=x.header)
    if kind == "vis":
        return aa.Visibilities(visibilities=np.array(x).copy())
    if kind == "visnoise":
        return aa.VisibilitiesNoiseMap(visibilities=np.array(x).copy())
    if kind == "girr":
        return aa.Grid2DIrregular(values=np.array(x).copy())
    if kind == "airr":
        return aa.ArrayIrregular(values=np.array(x).copy())
    raise ValueError(kind)


def kind_of(x):
    import autoarray as aa
    if isinstance(x, aa.Mask2D):
        return "mask"
    if isinstance(x, aa.Kernel2D):
        return "kernel"
    if isinstance(x, aa.Array2D):
        return "array2d"
    if isinstance(x, aa.Grid2D):
        return "grid2d"
    if isinstance(x, aa.VectorYX2D):
        return "vector"
    if isinstance(x, aa.VisibilitiesNoiseMap):
        return "visnoise"
    if isinstance(x, aa.Visibilities):
        return "vis"
    if isinstance(x, aa.Grid2DIrregular):
        return "girr"
    if isinstance(x, aa.ArrayIrregular):
        return "airr"
    return None


DERIVATIONS = {
    "array2d": ["mul", "add", "neg", "div", "abs", "copy", "slim", "native", "apply_mask", "resized", "padded", "trimmed", "sub_self"],
    "kernel": ["mul", "copy", "normalized", "native"],
    "grid2d": ["mul", "add", "neg", "copy", "slim", "native", "subtracted", "flipped", "padded_grid"],
    "vector": ["mul", "neg", "copy", "slim", "native", "apply_mask"],
    "vis": ["mul", "add", "neg", "copy", "slice", "div"],
    "visnoise": ["mul", "copy", "slice"],
    "girr": ["mul", "add", "copy", "slice"],
    "airr": ["mul", "add", "copy", "slice"],
    "mask": ["copy", "resized_mask", "rescaled", "edge_mask", "edge_buffed"],
}


class StructInterp:
    def __init__(self, ctx):
        self.ctx = ctx
        self.dead = False
        self.pool = []        # (kind, obj, provenance)
        self.inputs = []      # (description, raw array, fingerprint)
        self.snaps = []       # (description, returned object, normalised copy)
        self.events = []      # sequence of ("read", i, q) / ("derive", i, d)
        self.steps = 0

    # -- helpers ---------------------------------------------------------------------------
    def _own(self, desc, arr):
        self.inputs.append((desc, arr, fp(arr)))
        return arr

    def _check_inputs(self, after):
        for desc, arr, h in self.inputs:
            self.ctx.check(fp(arr) == h, "structures/input-mutated/%s" % desc, "caller-owned %s changed after %s" % (desc, after))

    def _check_snaps(self, after):
        for desc, ref, want in self.snaps:
            self.ctx.check(same(norm(ref), want, rtol=0.0), "structures/returned-value-changed/%s" % desc,
                           "value returned earlier by %s changed after %s" % (desc, after))

    def _add(self, obj, prov):
        k = kind_of(obj)
        if k is not None and len(self.pool) < 12:
            self.pool.append((k, obj, prov))
            return True
        return False

    def _read(self, i, qi, audit=False):
        kind, obj, prov = self.pool[i]
        qs = CATALOGUE[kind]()
        name, fn = qs[qi % len(qs)]
        twin = rebuild(kind, obj)
        want = norm(_call(fn, twin))
        got_raw = _call(fn, obj)
        got = norm(got_raw)
        key = "structures/%s/%s/%s" % (kind, name, "constructed" if prov == "ctor" else "derived")
        self.ctx.check(same(got, want), key, lambda: "%s.%s on object derived by '%s' after history %s: got %s, fresh twin gives %s" % (
            kind, name, prov, self.events[-6:], short(got), short(want)))
        if not audit and isinstance(got_raw, np.ndarray) or hasattr(got_raw, "_array"):
            if len(self.snaps) < 40:
                self.snaps.append(("%s.%s" % (kind, name), got_raw, got))
        return name

    # -- ops -------------------------------------------------------------------------------
    def apply(self, op, a):
        import autoarray as aa
        ctx = self.ctx
        self.steps += 1
        if op == "new":
            self._new(a)
        elif op == "read":
            if not self.pool:
                return
            i = a["i"] % len(self.pool)
            name = self._read(i, a["q"])
            prior = [e for e in self.events if e[1] == i]
            if any(e[0] == "read" and e[2] != name for e in prior) or any(e[0] == "derive" for e in self.events):
                if any(e[0] == "read" and e[2] == name for e in prior) or self.pool[i][2] != "ctor":
                    ctx.nt(True)
            self.events.append(("read", i, name))
        elif op == "audit":
            if not self.pool:
                return
            i = a["i"] % len(self.pool)
            kind = self.pool[i][0]
            order = list(range(len(CATALOGUE[kind]())))
            if a["rev"]:
                order.reverse()
            for qi in order:
                self._read(i, qi, audit=True)
            self.events.append(("audit", i, "*"))
        elif op == "derive":
            if not self.pool:
                return
            i = a["i"] % len(self.pool)
            kind, obj, prov = self.pool[i]
            ds = DERIVATIONS[kind]
            d = ds[a["d"] % len(ds)]
            new = self._derive(kind, obj, d, a)
            if new is not None and self._add(new, d):
                self.events.append(("derive", i, d))
                ctx.label("derive:%s" % d)
                if any(e[0] in ("read", "audit") and e[1] == i for e in self.events):
                    ctx.label("history:derivation-after-read")
        self._check_inputs("%s %s" % (op, {k: v for k, v in a.items() if k != "values"}))
        self._check_snaps("%s" % op)

    def _new(self, a):
        import autoarray as aa
        kind = a["kind"]
        ctx = self.ctx
        ctx.label("new:%s" % kind)
        if kind in ("array2d", "grid2d", "vector", "mask", "kernel"):
            m = np.asarray(a["mask"], dtype=bool)
            h, w = m.shape
            raw_mask = self._own("mask-array", m.copy())
            mask = aa.Mask2D(mask=raw_mask, pixel_scales=tuple(a["pixel_scales"]), origin=tuple(a["origin"]))
            n = int((~m).sum())
            vals = np.resize(np.asarray(a["values"], dtype=float), 2 * h * w)
        if kind == "mask":
            self._add(mask, "ctor")
        elif kind == "array2d":
            native_in = a["native_in"]
            src = vals[:h * w].reshape(h, w).copy() if native_in else vals[:n].copy()
            raw = self._own("array2d-values-%s" % ("native" if native_in else "slim"), src)
            self._add(aa.Array2D(values=raw, mask=mask, store_native=a["store_native"]), "ctor")
        elif kind == "kernel":
            kh, kw = a["kshape"]
            raw = self._own("kernel-values", np.resize(np.abs(vals) + 0.1, kh * kw).reshape(kh, kw).copy())
            self._add(aa.Kernel2D.no_mask(values=raw, pixel_scales=tuple(a["pixel_scales"]), normalize=False), "ctor")
        elif kind == "grid2d":
            native_in = a["native_in"]
            src = vals.reshape(h, w, 2).copy() if native_in else vals.reshape(h * w, 2)[:n].copy()
            raw = self._own("grid2d-values-%s" % ("native" if native_in else "slim"), src)
            osamp = aa.OverSamplingUniform(sub_size=a["sub"]) if a["sub"] else None
            if a["from_mask"]:
                self._add(aa.Grid2D.from_mask(mask=mask, over_sampling=osamp), "ctor")
            else:
                self._add(aa.Grid2D(values=raw, mask=mask, store_native=a["store_native"], over_sampling=osamp), "ctor")
        elif kind == "vector":
            native_in = a["native_in"]
            src = vals.reshape(h, w, 2).copy() if native_in else vals.reshape(h * w, 2)[:n].copy()
            raw = self._own("vector-values-%s" % ("native" if native_in else "slim"), src)
            grid = aa.Grid2D.from_mask(mask=mask)
            self._add(aa.VectorYX2D(values=raw, grid=grid, mask=mask, store_native=a["store_native"]), "ctor")
        elif kind in ("vis", "visnoise"):
            v = np.asarray(a["values"], dtype=float)
            k = max(1, len(v) // 2)
            c = (np.resize(v, 2 * k)[:k] + 1j * np.resize(v, 2 * k)[k:]).astype("complex128")
            if kind == "visnoise":
                c = (np.abs(c.real) + 0.1) + 1j * (np.abs(c.imag) + 0.1)
            raw = self._own("%s-values" % kind, c.copy())
            self._add((aa.Visibilities if kind == "vis" else aa.VisibilitiesNoiseMap)(visibilities=raw), "ctor")
        elif kind == "girr":
            v = np.asarray(a["values"], dtype=float)
            k = max(1, len(v) // 2)
            raw = self._own("girr-values", np.resize(v, 2 * k).reshape(k, 2).copy())
            self._add(aa.Grid2DIrregular(values=raw), "ctor")
        elif kind == "airr":
            raw = self._own("airr-values", np.asarray(a["values"], dtype=float).copy())
            self._add(aa.ArrayIrregular(values=raw), "ctor")

    def _derive(self, kind, obj, d, a):
        import autoarray as aa
        c = a["c"]
        if d == "mul":
            return obj * c
        if d == "add":
            return obj + c
        if d == "neg":
            return -obj
        if d == "div":
            return obj / (c if c != 0 else 2.0)
        if d == "abs":
            return abs(obj)
        if d == "copy":
            return obj.copy()
        if d == "sub_self":
            return obj - obj.copy() * 0.5
        if d == "slim":
            return obj.slim
        if d == "native":
            return obj.native
        if d == "normalized":
            return obj.normalized
        if d == "flipped":
            return obj.flipped
        if d == "subtracted":
            return obj.subtracted_from(offset=(c, -0.5 * c))
        if d == "padded_grid":
            return obj.padded_grid_from(kernel_shape_native=(3, 3))
        if d == "slice":
            n = len(obj)
            lo = a["lo"] % n
            hi = lo + 1 + (a["hi"] % (n - lo))
            return obj[lo:hi]
        if d == "apply_mask":
            m = np.array(obj.mask).copy()
            idx = np.argwhere(~m)
            if len(idx) > 1:
                y, x = idx[a["lo"] % len(idx)]
                m[y, x] = True
            newmask = aa.Mask2D(mask=m, pixel_scales=tuple(obj.mask.pixel_scales), origin=tuple(obj.mask.origin))
            return obj.apply_mask(mask=newmask)
        if d == "resized":
            h, w = obj.shape_native
            return obj.resized_from(new_shape=(h + 2 * (a["lo"] % 2 + 1), w + 2 * (a["hi"] % 2 + 1)))
        if d == "padded":
            return obj.padded_before_convolution_from(kernel_shape=(3, 3))
        if d == "trimmed":
            h, w = obj.shape_native
            if h < 3 or w < 3:
                return None
            return obj.trimmed_after_convolution_from(kernel_shape=(3, 3))
        if d == "resized_mask":
            h, w = obj.shape_native
            return obj.resized_from(new_shape=(h + 2, w + 2), pad_value=1)
        if d == "rescaled":
            return obj.rescaled_from(rescale_factor=2.0)
        if d == "edge_mask":
            return obj.derive_mask.edge
        if d == "edge_buffed":
            return obj.derive_mask.edge_buffed
        return None

    def finish(self):
        self.ctx.label("pool:%d" % min(len(self.pool), 6))
        kinds = set(k for k, _, _ in self.pool)
        for k in kinds:
            self.ctx.label("kind:%s" % k)


def struct_machine(run):
    from hypothesis.stateful import rule, initialize
    Base = machine_base(run, StructInterp)
    kinds = st.sampled_from(["array2d", "array2d", "grid2d", "grid2d", "vector", "kernel", "vis", "vis", "visnoise", "mask", "girr", "airr"])

    @st.composite
    def new_args(draw):
        kind = draw(kinds)
        a = {"kind": kind}
        if kind in ("array2d", "grid2d", "vector", "mask", "kernel"):
            ring = draw(st.sampled_from([0, 1, 2]))
            a["mask"] = draw(gens.masks(lo=2, hi=5, ring=ring, min_unmasked=2))
            a["pixel_scales"] = draw(gens.pixel_scales())
            a["origin"] = draw(gens.origins(mag=5.0))
            a["native_in"] = draw(st.booleans())
            a["store_native"] = draw(st.booleans())
            a["sub"] = draw(st.sampled_from([0, 0, 1, 2]))
            a["from_mask"] = draw(st.booleans())
            a["kshape"] = draw(st.sampled_from([[3, 3], [1, 3], [3, 5], [2, 2]]))
        a["values"] = draw(st.lists(gens.reals(-5, 5), min_size=4, max_size=12))
        return a

    class StructMachine(Base):
        @initialize(a=new_args())
        def first(self, a):
            self.op("new", **a)

        @rule(a=new_args())
        def new(self, a):
            self.op("new", **a)

        @rule(i=st.integers(0, 11), q=st.integers(0, 20))
        def read(self, i, q):
            self.op("read", i=i, q=q)

        @rule(i=st.integers(0, 11), rev=st.booleans())
        def audit(self, i, rev):
            self.op("audit", i=i, rev=rev)

        @rule(i=st.integers(0, 11), d=st.integers(0, 12), c=st.sampled_from([2.0, -1.5, 0.5, 3.0]), lo=st.integers(0, 7), hi=st.integers(0, 7))
        def derive(self, i, d, c, lo, hi):
            self.op("derive", i=i, d=d, c=c, lo=lo, hi=hi)

    return StructMachine


# ---------------------------------------------------------------------------------------------
# simulator determinism (@given)
# ---------------------------------------------------------------------------------------------
@st.composite
def simulator_case(draw):
    h = draw(st.integers(2, 6)); w = draw(st.integers(2, 6))
    return {
        "shape": [h, w],
        "image": draw(st.lists(gens.reals(0.5, 20), min_size=h * w, max_size=h * w)),
        "kernel": draw(gens.kernels(max_side=3, kinds=("nonneg", "normalised")))["values"],
        "noise_seed": draw(st.integers(0, 2 ** 31 - 1)),
        "global_seed_a": draw(st.integers(0, 2 ** 31 - 1)),
        "global_seed_b": draw(st.integers(0, 2 ** 31 - 1)),
        "advance": draw(st.integers(0, 50)),
        "exposure_time": draw(st.sampled_from([1.0, 50.0, 300.0])),
        "background": draw(st.sampled_from([0.0, 0.5])),
        "add_noise": draw(st.booleans()),
        "noise_in_map": draw(st.booleans()),
    }


def body_simulator(case, ctx):
    import autoarray as aa
    h, w = case["shape"]
    ctx.nt(case["add_noise"] or case["noise_in_map"])
    ctx.label("noise:on" if case["add_noise"] else "noise:off")

    def run(global_seed, advance):
        np.random.seed(global_seed)
        if advance:
            np.random.random(advance)
        img_raw = np.asarray(case["image"], dtype=float).reshape(h, w)
        image = aa.Array2D.no_mask(values=img_raw.copy(), pixel_scales=0.5)
        psf = aa.Kernel2D.no_mask(values=np.asarray(case["kernel"], dtype=float), pixel_scales=0.5, normalize=False)
        before = fp(np.array(image))
        sim = aa.SimulatorImaging(exposure_time=case["exposure_time"], psf=psf, background_sky_level=case["background"],
                                  add_poisson_noise_to_data=case["add_noise"], include_poisson_noise_in_noise_map=case["noise_in_map"],
                                  noise_seed=case["noise_seed"])
        ds = sim.via_image_from(image=image)
        ctx.check(fp(np.array(image)) == before, "simulator/input-mutated", "via_image_from changed the input image")
        return np.array(ds.data.native).copy(), np.array(ds.noise_map.native).copy()

    d1, n1 = run(case["global_seed_a"], 0)
    d2, n2 = run(case["global_seed_b"], case["advance"])
    ctx.equal(d2, d1, "simulator/seeded-data-depends-on-global-rng", "data of two simulations with noise_seed=%d" % case["noise_seed"])
    ctx.equal(n2, n1, "simulator/seeded-noise-map-depends-on-global-rng", "noise map of two simulations with noise_seed=%d" % case["noise_seed"])


SUBCHECKS = [
    SubCheck("structures", replay_history(StructInterp), machine=struct_machine, examples={"quick": 480, "thorough": 6400},
             shards={"quick": 16, "thorough": 16}, steps={"quick": 20, "thorough": 40}),
    SubCheck("simulator", body_simulator, strategy=simulator_case(), examples={"quick": 200, "thorough": 3000},
             shards={"quick": 2, "thorough": 8}),
]
