"""C03 — masked PSF blurring equals true 2D convolution restricted to the mask."""
import numpy as np
from hypothesis import strategies as st

from vp import gens
from vp.engine import SubCheck
from vp.ref import conv as refconv

PROPERTY = "C03"
RULE = (
    "(extended 2) large: frames with more than 2^15 and more than 2^16 unmasked pixels (whole-number values and kernels, exact comparison with a vectorised whole-frame convolution) for convolve_image, convolve_image_no_blurring and two sparse mapping-matrix columns placed at the highest slim indexes. "
    "(extended) kernels also include small whole numbers with exact -1.0 / 0.0 / repeated entries (sentinel values, exact cancellations). "
    "Hypothesis: masks (holes, several components, bridges; inner part up to 7x7) padded with a masked ring of the "
    "kernel half-widths, odd kernels 1..7 per axis independently (non-negative / signed / sparse / normalised, all "
    "entries distinct so flips and transposes are visible), real images and blurring images, real signed sparse "
    "mapping matrices; plus masks whose footprint leaves the frame and even kernels (rejection). Oracle: dense "
    "operator built by explicit index arithmetic out[t]+=K[a,b]*in[s], t=s+(a,b)-half (vp/ref/conv.py), cross-"
    "checked against scipy.signal.convolve2d(mode='same'); operator extraction on basis images; metamorphic: "
    "values outside mask U blurring region do not matter; simulator round trip with noise off gives zero residual. "
    "Non-trivial = kernel not symmetric under flip/transposition and mask has >=2 components or a hole (image "
    "checks) / matrix has a negative entry (matrix check); distinct = SHA-1 of the canonical case."
)
ASSUMPTIONS = [
    "scipy.signal.convolve2d(mode='same') is the definition of centred full 2D convolution (used only to cross-check the loop reference)",
    "comparison tolerance 1e-10 * (sum|K| * max|input| + 1): pure floating-point summation-order slack",
    "the simulator sub-check uses non-negative images and normalised non-negative kernels because SimulatorImaging always draws a Poisson deviate internally",
]
TECHNIQUE = "Hypothesis-generated masks/kernels/images against an independent dense convolution operator; operator extraction; metamorphic garbage-invariance"


def _tol(kernel, *arrs):
    s = float(np.abs(kernel).sum())
    m = max([1.0] + [float(np.abs(a).max()) for a in arrs if np.size(a)])
    return 1e-10 * (s * m + 1.0)


def _kernel_asym(k):
    k = np.asarray(k)
    if k.shape[0] == k.shape[1] and np.array_equal(k, k.T):
        return False
    return not np.array_equal(k, k[::-1, ::-1])


@st.composite
def setup(draw, max_inner=7, max_k=7, kinds=("nonneg", "signed", "sparse", "normalised", "integer")):
    ker = draw(gens.kernels(max_side=max_k, kinds=kinds))
    kh, kw = len(ker["values"]), len(ker["values"][0])
    hy, hx = kh // 2, kw // 2
    inner = draw(gens.masks(lo=draw(st.sampled_from([1, 2, 3, 3])), hi=max_inner))
    ih, iw = len(inner), len(inner[0])
    extra = draw(st.integers(0, 1))
    h, w = ih + 2 * (hy + extra), iw + 2 * (hx + extra)
    mask = [[True] * w for _ in range(h)]
    for i in range(ih):
        for j in range(iw):
            mask[i + hy + extra][j + hx + extra] = inner[i][j]
    return {"mask": mask, "kernel": ker["values"], "kernel_kind": ker["kind"]}


def _build(case):
    import autoarray as aa
    m = np.asarray(case["mask"], dtype=bool)
    k = np.asarray(case["kernel"], dtype=float)
    mask = aa.Mask2D(mask=gens.vary_layout(m), pixel_scales=1.0)
    kernel = aa.Kernel2D.no_mask(values=k.copy(), pixel_scales=1.0, normalize=False)
    return aa, m, k, mask, kernel


def _classify(case, ctx, m, k):
    for l in gens.mask_stats(m):
        ctx.label(l)
    ctx.label("kernel:%s" % case.get("kernel_kind", "?"))
    ctx.label("kernel:nonsquare" if k.shape[0] != k.shape[1] else "kernel:square")
    asym = _kernel_asym(k)
    ctx.label("kernel:asymmetric" if asym else "kernel:symmetric")
    return asym and bool({"mask:hole", "mask:multi-component"} & ctx.labels)


# ---------------------------------------------------------------------------------------------
@st.composite
def image_case(draw):
    c = draw(setup())
    h, w = len(c["mask"]), len(c["mask"][0])
    if draw(st.integers(0, 3)) == 0:
        # small whole numbers: sums of the image / blurring image cancel exactly in many cases ("empty input" shortcuts)
        c["native"] = [float(v) for v in draw(st.lists(st.integers(-2, 2), min_size=h * w, max_size=h * w))]
        c["values_kind"] = "small-integers"
        c["cancel"] = draw(st.sampled_from(["none", "blurring", "image", "both"]))
    else:
        c["native"] = draw(gens.real_list(h * w, -10, 10))
        c["values_kind"] = "reals"
    c["garbage"] = draw(gens.real_list(h * w, -100, 100))
    return c


def body_image(case, ctx):
    aa, m, k, mask, kernel = _build(case)
    ctx.nt(_classify(case, ctx, m, k))
    a_mask, a_blur, blur = refconv.operators(m, k)
    native = np.asarray(case["native"], dtype=float).reshape(m.shape)
    # explicit class: non-zero blurring image / image whose entries cancel exactly in their sum
    cancel = case.get("cancel", "none")
    if cancel in ("blurring", "both") and blur.sum() >= 2 and native[blur].any():
        idx = np.argwhere(blur)[-1]
        native[idx[0], idx[1]] -= native[blur].sum()
    if cancel in ("image", "both") and (~m).sum() >= 2 and native[~m].any():
        idx = np.argwhere(~m)[-1]
        native[idx[0], idx[1]] -= native[~m].sum()
    img = native[~m]
    bimg = native[blur]
    ctx.label("values:%s" % case.get("values_kind", "reals"))
    if bimg.size and bimg.any() and float(bimg.sum()) == 0.0:
        ctx.label("blurring-image:sums-to-zero")
    if img.size and img.any() and float(img.sum()) == 0.0:
        ctx.label("image:sums-to-zero")
    want = a_mask @ img + a_blur @ bimg
    tol = _tol(k, native)
    # cross-check of the reference itself against scipy on the combined native image
    import scipy.signal
    comb = np.where(~m | blur, native, 0.0)
    sp = scipy.signal.convolve2d(comb, k, mode="same")[~m]
    if not np.allclose(sp, want, rtol=0, atol=tol):
        raise AssertionError("reference operator disagrees with scipy.signal.convolve2d")

    convolver = ctx.impl("convolver/construct", aa.Convolver, mask=mask, kernel=kernel)
    ctx.equal(np.asarray(convolver.blurring_mask), ~blur, "convolver/blurring-mask", "Convolver.blurring_mask vs blurring region")
    blurring_mask = aa.Mask2D(mask=~blur, pixel_scales=1.0)
    image = aa.Array2D(values=img.copy(), mask=mask)
    blurring_image = aa.Array2D(values=bimg.copy(), mask=blurring_mask)
    got = convolver.convolve_image(image=image, blurring_image=blurring_image)
    ctx.close(np.asarray(got.slim), want, "convolve_image/%s" % _kclass(case, k), atol=tol, what="convolve_image vs A_mask@img + A_blur@blur")
    ctx.check(got.mask is mask or np.array_equal(np.asarray(got.mask), m), "convolve_image/mask", "result mask differs")
    got_nb = convolver.convolve_image_no_blurring(image=image)
    ctx.close(np.asarray(got_nb.slim), a_mask @ img, "convolve_image_no_blurring/%s" % _kclass(case, k), atol=tol, what="convolve_image_no_blurring vs A_mask@img")

    # metamorphic: garbage outside mask U blurring region never influences the result (native-stored inputs)
    garb = np.asarray(case["garbage"], dtype=float).reshape(m.shape)
    dirty = np.where(~m | blur, native, garb)
    image_n = aa.Array2D(values=dirty.copy(), mask=mask, store_native=True)
    blurring_n = aa.Array2D(values=dirty.copy(), mask=blurring_mask, store_native=True)
    got2 = convolver.convolve_image(image=image_n, blurring_image=blurring_n)
    ctx.equal(np.asarray(got2.slim), np.asarray(got.slim), "convolve_image/garbage-invariance", "values outside mask U blurring region changed the result")

    # whole-frame kernel convolution agrees where both are defined
    comb_arr = aa.Array2D.no_mask(values=comb.copy(), pixel_scales=1.0)
    whole = kernel.convolved_array_from(array=comb_arr)
    ctx.close(np.asarray(whole.native)[~m], want, "kernel2d/convolved_array_from-vs-convolver", atol=tol, what="Kernel2D.convolved_array_from at unmasked pixels")
    whole_m = kernel.convolved_array_with_mask_from(array=comb_arr.native, mask=mask)
    ctx.close(np.asarray(whole_m.slim), want, "kernel2d/convolved_array_with_mask_from", atol=tol, what="Kernel2D.convolved_array_with_mask_from")
    ctx.close(np.asarray(whole.native), refconv.full_convolve(comb, k), "kernel2d/whole-frame", atol=tol, what="Kernel2D.convolved_array_from whole frame vs loop reference")


def _kclass(case, k):
    return "nonsquare" if k.shape[0] != k.shape[1] else "square"


# ---------------------------------------------------------------------------------------------
@st.composite
def matrix_case(draw):
    c = draw(setup(max_inner=6, max_k=5))
    n = sum(1 for r in c["mask"] for v in r if not v)
    cols = draw(st.integers(1, 4))
    kind = draw(st.sampled_from(["nonneg", "signed", "signed", "sparse-signed", "fractional", "tiny"]))
    if kind == "nonneg":
        vals = draw(st.lists(gens.reals(0, 3), min_size=n * cols, max_size=n * cols))
    elif kind == "fractional":
        vals = draw(st.lists(st.floats(0, 1), min_size=n * cols, max_size=n * cols))
    elif kind == "tiny":
        vals = draw(st.lists(st.sampled_from([0.0, 1e-4, 5e-4, -1e-4, 1e-6, 2e-3, 1.0]), min_size=n * cols, max_size=n * cols))
    else:
        vals = draw(st.lists(gens.reals(-3, 3), min_size=n * cols, max_size=n * cols))
        if kind == "sparse-signed":
            keep = draw(st.lists(st.booleans(), min_size=n * cols, max_size=n * cols))
            vals = [v if kp else 0.0 for v, kp in zip(vals, keep)]
    c["matrix"] = [vals[i * cols:(i + 1) * cols] for i in range(n)]
    c["matrix_kind"] = kind
    return c


def body_matrix(case, ctx):
    aa, m, k, mask, kernel = _build(case)
    _classify(case, ctx, m, k)
    mm = np.asarray(case["matrix"], dtype=float)
    ctx.label("matrix:%s" % case.get("matrix_kind", "?"))
    has_neg = bool((mm < 0).any())
    ctx.label("matrix:has-negative" if has_neg else "matrix:no-negative")
    ctx.nt(has_neg)
    a_mask, _, _ = refconv.operators(m, k)
    convolver = ctx.impl("convolver/construct", aa.Convolver, mask=mask, kernel=kernel)
    got = convolver.convolve_mapping_matrix(mapping_matrix=mm.copy())
    want = a_mask @ mm
    sub = "nonpositive-entries" if (mm <= 0).any() and (mm != 0).any() and has_neg else ("small-entries" if (np.abs(mm[mm != 0]) < 1e-2).any() else "positive")
    ctx.close(got, want, "convolve_mapping_matrix/%s" % sub, atol=_tol(k, mm), what="convolve_mapping_matrix vs A_mask @ M")
    # column-wise consistency with the image operator (same linear operator)
    j = 0
    col = aa.Array2D(values=mm[:, j].copy(), mask=mask)
    ctx.close(np.asarray(got)[:, j] if np.ndim(got) == 2 else None, np.asarray(convolver.convolve_image_no_blurring(image=col).slim),
              "convolve_mapping_matrix/vs-image-operator/%s" % sub, atol=_tol(k, mm), what="matrix column vs convolve_image_no_blurring of that column")


# ---------------------------------------------------------------------------------------------
@st.composite
def extract_case(draw):
    return draw(setup(max_inner=5, max_k=5))


def body_extract(case, ctx):
    """Extract the implementation's operator on basis images and compare with the reference operator."""
    aa, m, k, mask, kernel = _build(case)
    ctx.nt(_classify(case, ctx, m, k))
    a_mask, a_blur, blur = refconv.operators(m, k)
    convolver = ctx.impl("convolver/construct", aa.Convolver, mask=mask, kernel=kernel)
    blurring_mask = aa.Mask2D(mask=~blur, pixel_scales=1.0)
    n, nb = a_mask.shape[0], a_blur.shape[1]
    got_mask = np.zeros((n, n))
    got_blur = np.zeros((n, nb))
    zero_b = aa.Array2D(values=np.zeros(nb), mask=blurring_mask)
    zero_i = aa.Array2D(values=np.zeros(n), mask=mask)
    for s in range(n):
        e = np.zeros(n); e[s] = 1.0
        got_mask[:, s] = np.asarray(convolver.convolve_image(image=aa.Array2D(values=e, mask=mask), blurring_image=zero_b).slim)
    for s in range(nb):
        e = np.zeros(nb); e[s] = 1.0
        got_blur[:, s] = np.asarray(convolver.convolve_image(image=zero_i, blurring_image=aa.Array2D(values=e, mask=blurring_mask)).slim)
    ctx.close(got_mask, a_mask, "operator/mask-block", atol=1e-12, what="extracted operator (mask columns)")
    ctx.close(got_blur, a_blur, "operator/blurring-block", atol=1e-12, what="extracted operator (blurring columns)")
    ident = convolver.convolve_mapping_matrix(mapping_matrix=np.eye(n))
    ctx.close(ident, a_mask, "operator/matrix-identity", atol=1e-12, what="convolve_mapping_matrix(I) vs A_mask")


# ---------------------------------------------------------------------------------------------
@st.composite
def reject_case(draw):
    kind = draw(st.sampled_from(["even", "leaves"]))
    if kind == "even":
        kh, kw = draw(st.sampled_from([[2, 3], [3, 2], [2, 2], [4, 3], [4, 4], [1, 2]]))
        mask = draw(gens.masks(lo=3, hi=6, ring=3))
        kvals = draw(gens.real_list(kh * kw, 0.1, 2))
        kernel = [kvals[i * kw:(i + 1) * kw] for i in range(kh)]
    else:
        ker = draw(gens.kernels(max_side=7, min_side=3))
        kernel = ker["values"]
        kh, kw = len(kernel), len(kernel[0])
        mask = draw(gens.masks(lo=2, hi=7))
        # force an unmasked pixel on the outer ring so that a footprint certainly leaves the frame
        side = draw(st.sampled_from(["top", "bottom", "left", "right"]))
        h, w = len(mask), len(mask[0])
        if kh == 1 and side in ("top", "bottom"):
            side = "left"
        if kw == 1 and side in ("left", "right"):
            side = "top"
        if side == "top":
            mask[0][draw(st.integers(0, w - 1))] = False
        elif side == "bottom":
            mask[h - 1][draw(st.integers(0, w - 1))] = False
        elif side == "left":
            mask[draw(st.integers(0, h - 1))][0] = False
        else:
            mask[draw(st.integers(0, h - 1))][w - 1] = False
    return {"kind": kind, "mask": mask, "kernel": kernel}


def body_reject(case, ctx):
    import autoarray as aa
    from autoarray import exc
    m = np.asarray(case["mask"], dtype=bool)
    k = np.asarray(case["kernel"], dtype=float)
    ctx.label("reject:%s" % case["kind"])
    ctx.nt(True)
    mask = aa.Mask2D(mask=gens.vary_layout(m), pixel_scales=1.0)
    kernel = aa.Kernel2D.no_mask(values=k.copy(), pixel_scales=1.0, normalize=False)
    if case["kind"] == "even":
        try:
            aa.Convolver(mask=mask, kernel=kernel)
            ctx.fail("reject/even-kernel-accepted/convolver", "Convolver accepted an even kernel %s" % (k.shape,))
        except exc.KernelException:
            pass
        try:
            kernel.convolved_array_from(array=aa.Array2D.no_mask(values=np.ones(m.shape), pixel_scales=1.0))
            ctx.fail("reject/even-kernel-accepted/kernel2d", "Kernel2D.convolved_array_from accepted an even kernel %s" % (k.shape,))
        except exc.KernelException:
            pass
    else:
        _, leaves = refconv.blurring_region(m, k.shape)
        assert leaves
        try:
            aa.Convolver(mask=mask, kernel=kernel)
            ctx.fail("reject/footprint-leaves-frame-accepted", "Convolver built although a kernel footprint leaves the frame")
        except exc.MaskException:
            pass


# ---------------------------------------------------------------------------------------------
@st.composite
def simulator_case(draw):
    c = draw(setup(max_inner=6, max_k=5, kinds=("normalised",)))
    h, w = len(c["mask"]), len(c["mask"][0])
    c["native"] = draw(st.lists(gens.reals(0, 20), min_size=h * w, max_size=h * w))
    c["pixel_scales"] = draw(gens.pixel_scales())
    c["exposure_time"] = draw(st.sampled_from([1.0, 300.0, 1000.0]))
    c["background_sky_level"] = draw(st.sampled_from([0.0, 0.0, 1.5]))
    return c


def body_simulator(case, ctx):
    import autoarray as aa
    m = np.asarray(case["mask"], dtype=bool)
    k = np.asarray(case["kernel"], dtype=float)
    ctx.nt(_classify(case, ctx, m, k))
    ps = tuple(case["pixel_scales"])
    native = np.asarray(case["native"], dtype=float).reshape(m.shape)
    image = aa.Array2D.no_mask(values=native.copy(), pixel_scales=ps)
    psf = aa.Kernel2D.no_mask(values=k.copy(), pixel_scales=ps, normalize=False)
    sim = aa.SimulatorImaging(exposure_time=case["exposure_time"], psf=psf, normalize_psf=True,
                              background_sky_level=case["background_sky_level"], subtract_background_sky=True,
                              add_poisson_noise_to_data=False, include_poisson_noise_in_noise_map=False,
                              noise_if_add_noise_false=0.2, noise_seed=1)
    dataset = sim.via_image_from(image=image)
    kn = k / k.sum()
    tol = 1e-9 * (1.0 + float(native.max()) + case["background_sky_level"])
    ctx.close(np.asarray(dataset.data.native), refconv.full_convolve(native, kn), "simulator/data", atol=tol, what="noise-free simulated data vs whole-frame convolution")
    mask = aa.Mask2D(mask=gens.vary_layout(m), pixel_scales=ps)
    masked = dataset.apply_mask(mask=mask)
    ctx.check(np.array_equal(np.asarray(masked.mask), m), "simulator/unexpected-padding", "apply_mask changed the mask although the footprint stays inside the frame")
    _, _, blur = refconv.operators(m, kn)
    img = aa.Array2D(values=native[~m].copy(), mask=masked.mask)
    bl = aa.Array2D(values=native[blur].copy(), mask=aa.Mask2D(mask=~blur, pixel_scales=ps))
    model = masked.convolver.convolve_image(image=img, blurring_image=bl)
    resid = np.asarray(masked.data.slim) - np.asarray(model.slim)
    ctx.close(resid, np.zeros_like(resid), "simulator/zero-residual", atol=tol, what="residual of the generating image against its noise-free simulation")


# ---------------------------------------------------------------------------------------------
# large frames: more unmasked pixels than a 16-bit index can address (frame index tables, lengths)
def cases_large(tier):
    """(H, W, kernel shape, value seed). Unmasked counts just above 2**15 and 2**16; the mask keeps a masked rim of the
    kernel half-widths plus a masked hole, values are small whole numbers so sums are exact."""
    quick = [(184, 184, (3, 3), 1), (260, 259, (1, 3), 2)]
    more = [(183, 184, (3, 1), 3), (130, 300, (3, 3), 4), (258, 258, (3, 3), 5), (300, 225, (5, 3), 6)]
    for h, w, ks, sd in (quick if tier == "quick" else quick + more):
        yield {"h": h, "w": w, "kshape": list(ks), "vseed": sd}


def body_large(case, ctx):
    import autoarray as aa
    h, w = case["h"], case["w"]
    kh, kw = case["kshape"]
    hy, hx = kh // 2, kw // 2
    m = np.ones((h, w), dtype=bool)
    m[max(1, hy):h - max(1, hy), max(1, hx):w - max(1, hx)] = False
    m[h // 3:h // 3 + 3, w // 4:w // 4 + 11] = True          # a hole, so the blurring region is not only the rim
    n = int((~m).sum())
    ctx.nt(n > 2 ** 15)
    ctx.label("large:n>2^16" if n > 2 ** 16 else "large:n>2^15")
    # deterministic small whole-number values and kernel (a fixed multiplicative pattern, no RNG)
    yy, xx = np.mgrid[0:h, 0:w]
    native = (((yy * 7 + xx * 13 + case["vseed"] * 5) % 9) - 4).astype(float)
    k = ((np.arange(kh * kw).reshape(kh, kw) * 3 + case["vseed"]) % 5 - 1).astype(float)
    k[hy, hx] = 2.0
    mask = aa.Mask2D(mask=gens.vary_layout(m), pixel_scales=1.0)
    kernel = aa.Kernel2D.no_mask(values=k.copy(), pixel_scales=1.0, normalize=False)
    convolver = ctx.impl("large/convolver/construct", aa.Convolver, mask=mask, kernel=kernel)
    blur, _ = refconv.blurring_region_fast(m, (kh, kw))
    bm = ~blur
    image = aa.Array2D(values=native[~m].copy(), mask=mask)
    bmask = aa.Mask2D(mask=bm.copy(), pixel_scales=1.0)
    bimage = aa.Array2D(values=native[blur].copy(), mask=bmask)
    got = np.asarray(convolver.convolve_image(image=image, blurring_image=bimage))
    combined = np.where(~m | blur, native, 0.0)
    want = refconv.full_convolve(combined, k)[~m]
    ctx.equal(got, want, "large/convolve_image", "n=%d unmasked pixels, kernel %dx%d" % (n, kh, kw))
    got_nb = np.asarray(convolver.convolve_image_no_blurring(image=image))
    want_nb = refconv.full_convolve(np.where(~m, native, 0.0), k)[~m]
    ctx.equal(got_nb, want_nb, "large/convolve_image_no_blurring", "n=%d" % n)
    # two sparse mapping-matrix columns whose non-zeros sit at the highest slim indexes and around 2**15 / 2**16
    mm = np.zeros((n, 2))
    for j, centre in enumerate((n - 3, (2 ** 16 + 5) if n > 2 ** 16 + 10 else (2 ** 15 + 5))):
        for t in range(-2, 3):
            if 0 <= centre + t < n:
                mm[centre + t, j] = float(t + 3) * (1 if j == 0 else -1)
    got_mm = np.asarray(convolver.convolve_mapping_matrix(mapping_matrix=mm.copy()))
    want_mm = np.zeros((n, 2))
    for j in range(2):
        colnat = np.zeros((h, w)); colnat[~m] = mm[:, j]
        want_mm[:, j] = refconv.full_convolve(colnat, k)[~m]
    ctx.equal(got_mm, want_mm, "large/convolve_mapping_matrix", "n=%d" % n)


SUBCHECKS = [
    SubCheck("image", body_image, strategy=image_case(), examples={"quick": 1200, "thorough": 12000}, shards={"quick": 8, "thorough": 16}),
    SubCheck("matrix", body_matrix, strategy=matrix_case(), examples={"quick": 1200, "thorough": 12000}, shards={"quick": 8, "thorough": 16}),
    SubCheck("extract", body_extract, strategy=extract_case(), examples={"quick": 240, "thorough": 3200}, shards={"quick": 8, "thorough": 16}),
    SubCheck("reject", body_reject, strategy=reject_case(), examples={"quick": 60, "thorough": 600}, shards={"quick": 1, "thorough": 2}),
    SubCheck("simulator", body_simulator, strategy=simulator_case(), examples={"quick": 400, "thorough": 4000}, shards={"quick": 4, "thorough": 16}),
    SubCheck("large", body_large, cases=cases_large, shards={"quick": 2, "thorough": 6}),
]
