"""C09 — over-sampling partitions pixels uniformly and bins by exact per-pixel means; the iterative scheme
follows its stated stopping rule."""
import numpy as np
from hypothesis import strategies as st

from vp import gens, scene
from vp.engine import SubCheck
from vp.ref import oversample as R

PROPERTY = "C09"
RULE = (
    "reuse: 2-3 different functions evaluated one after the other on the same OverSamplerIterate / Grid2D object, each against the reference; "
    "grid / bin / decorated: Hypothesis masks up to 10x10 (8x8 for decorated) from the shared constructive mask "
    "families, isotropic or anisotropic pixel scales in [0.05,5], origins up to |100|, sub-size given as an int "
    "1..8, a constant per-pixel list or a mixed per-pixel integer list 1..8. Every case is run through every entry "
    "point (no entry point depends on a drawn choice): OverSamplerUniform, OverSamplingUniform.over_sampler_from, "
    "Grid2D.over_sampler, the three GridsDataset grids (three different maps), the util kernels, "
    "binned_array_2d_from with ndarray / ArrayIrregular / list input, @over_sample-decorated methods (stacked on "
    "to_array like library callers, and bare) on Grid2D with int and Array2D sub-sizes, on Grid2DOverSampled and "
    "on a grid without over-sampling (adaptive config scheme for a drawn centre; its sub-size map is read from "
    "the library), and OverSamplerUniform.array_via_func_from with and without an object; about half of the cases "
    "pass an extra keyword argument. User functions are generated expression sums over (y,x): constants, affine, "
    "products, quadratics, sines, Gaussians, cusps, |linear| terms with centres / zero lines drawn on eighths of a "
    "pixel (so zeros and sign changes fall inside the mask, often exactly on pixel centres) and an optional box "
    "of pixels on which the function is exactly zero. Oracle: closed-form sub-grid (pixel edge + "
    "(k+1/2)*scale/s, pixels in slim order, rows top-to-bottom then left-to-right) at atol 1e-11; "
    "slim_for_sub_slim == repeat(arange(n), s^2) exactly; sub-pixel areas sy*sx/s^2 (rtol 1e-13) summing to the "
    "unmasked area (rtol 1e-12); binned values == np.bincount per-pixel mean (atol 1e-12*max(1,max|v|)); constants "
    "and affine functions reproduced at the closed-form pixel centres (atol 1e-10*scale); decorator result == "
    "mean of the function on the reference sub-grid (atol 1e-9*scale) and, when every sub-size is 1, "
    "bit-identical to the function's own output on the pixel centres. iterate: masks up to 6x6, strictly "
    "increasing schedules of length 1..4 from 1..12 (or the default [2,4,8,16]), fractional accuracies in (0,1], "
    "absolute tolerance None or positive, each case through OverSamplerIterate.array_via_func_from and through the "
    "decorator (both stacks); oracle = per-pixel loop implementing the statement's rule on reference level "
    "values; a pixel whose decision could flip within the value error bound delta=1e-9*scale (ratio within "
    "1e-9+4*delta/larger of the accuracy, |difference| within 1e-9+2*delta of the tolerance, |previous| <= delta) "
    "is excluded and counted as a tie. iterate_exact: level-table functions taking power-of-two values (and 0, "
    "negatives) on power-of-two schedules, so every level value, ratio and difference is exact in binary floating "
    "point and the rule is checked with exact equality including ratio == accuracy and difference == tolerance. "
    "Functions that vanish on all pixel centres are excluded by construction (the documented early exit makes the "
    "result unspecified). Magnitude regime: every generated function (and the bin / iterate_exact values) is "
    "multiplied by an exact power of two 2**k, k in [-120,60] (k=0 in about a quarter of the cases, tiny <1e-8 and "
    "huge >1e8 classes each >=5%); all tolerances, tie bands and the absolute tolerance handed to the library are "
    "relative to that unit (delta = 1e-9*max(2**k, max|f|), band of the absolute tolerance 1e-9*2**k+2*delta, bin "
    "atol 1e-12*max|v| + 1e-300 for gradual underflow), and for binning / uniform over-sampling the result for 2**k*f must equal "
    "2**k times the result for f bit for bit. reuse: several functions through the same sampler / grid object. "
    "shared: ONE OverSamplingUniform / OverSamplingIterate / OverSamplingDataset instance used one after the other "
    "for 2..4 geometries on masks up to 5x5 (same boolean pattern with other pixel scales and/or origin, same "
    "shape with another pattern, then the first geometry again) through Grid2D.over_sampler, over_sampler_from, "
    "GridsDataset and Imaging(...).grids; each visit is compared with the closed-form reference of ITS geometry: "
    "sub-grid, sub-pixel areas, binned values, decorated uniform / iterated values, pixel-centre coordinates, and "
    "the mask attached to samplers and results (array, pixel scales, origin exactly); failure keys carry the "
    "relation (first / same-pattern / same-shape / revisit-first). Non-trivial = per-pixel sub-size not constant, "
    "or (iterate) at least two pixels stop at different schedule levels, or (shared) at least one same-pattern "
    "geometry with other scales/origin; distinct = SHA-1 of the canonical case. tables (uniform int sub-size 1..6, "
    "masks up to 8x8): oversample_mask_2d_from == every mask entry expanded to an s x s block; "
    "native_sub_index_for_slim_sub_index_2d_from and OverSamplerUniform.sub_mask_native_for_sub_mask_slim (int and "
    "constant-list sub-size) == (i*s+y1, j*s+x1) in the stated order (pixels in slim order, rows top-to-bottom, "
    "left-to-right), a bijection onto the unmasked entries of the sub-mask, and the centre of table entry k in the "
    "(H*s,W*s) frame (scales ps/s, same origin) equals the k-th over-sampled coordinate (atol 1e-11); "
    "sub_slim_index_for_sub_native_index_from == row-major rank of the unmasked sub-mask entries, -1 on masked "
    "ones (all exact). adapt (masks up to 6x6): the sub-size tables built by OverSamplingUniform.from_adapt "
    "(generated data / noise / cut / lower / upper), from_radial_bins with the default centre and the dataset's "
    "default pixelization over-sampling must hold one documented size per unmasked pixel and lead to a sub-grid, "
    "slim_for_sub_slim, binned values and decorated values equal to the reference for that table (the adaptive "
    "choice of sizes itself is not checked); OverSamplingIterate(sub_steps=None) follows the rule on the documented "
    "default schedule [2,4,8,16]; the identically-zero function returns exact zeros (every level is 0). "
    "Non-trivial there = sub-size > 1 on a mask that is not a solid rectangle (tables), from_adapt table mixed (adapt). "
    "Grid2DOverSampled with displaced points (decorated): the bundled points are the reference sub-grid sent through a "
    "generated identity / affine (rotation, shear, scale, shift) / smooth warp with jitter, int and per-pixel "
    "sub-sizes, both stacks; oracle = reference per-pixel mean of f at the bundled points (atol 1e-9*scale; functions "
    "without the zero box). Schedule order: schedules are handed over exactly as generated - ascending, descending, "
    "permuted or with repeated entries, as list or tuple - through OverSamplerIterate, "
    "OverSamplingIterate.over_sampler_from and the decorator (both stacks), in iterate, iterate_exact (table per "
    "distinct sub-size, schedule any sequence over them), reuse and shared; the reference rule is applied to the "
    "schedule as given, and the routes must return bit-identical arrays (tied pixels included)."
)
ASSUMPTIONS = [
    "pixel (i,j) of an (H,W) frame is centred at (oy+((H-1)/2-i)*sy, ox+(j-(W-1)/2)*sx) (C02's closed form); "
    "'top-to-bottom' is decreasing y",
    "sub-size arrays are integer-valued and given per unmasked pixel in slim order (float dtype only arises "
    "from the library's own adaptive scheme, which is exercised as such)",
    "the decorated callable takes its first two parameters by the names obj and grid (every stacked grid "
    "decorator in the library does; over_sample calls func(obj=..., grid=...) on its no-over-sampling path) "
    "and extra parameters by keyword",
    "user functions are point-wise: the value at a coordinate does not depend on which other coordinates are in "
    "the same call, and they accept **kwargs (the decorator injects over_sampling_being_performed)",
    "'meets the fractional accuracy' means ratio >= accuracy and 'meets the absolute tolerance' means "
    "|difference| <= tolerance; a previous value that is zero or negative never meets",
    "generated function values are bounded (|f| <= ~1e4) with gradients <= ~2.4e3 per coordinate unit, so "
    "1e-9*max(1,max|f|) bounds the effect of coordinate rounding (<= 1e-13) on every level value",
    "multiplying by 2**k (|k|<=120) is exact for every value involved (no generated value is subnormal after "
    "scaling; the bit-exact scaling relation is skipped when the smallest non-zero magnitude would drop below "
    "1e-280), so the level every pixel stops at is invariant under the scaling",
    "a binned / iterated result is an Array2D whose mask is the geometry (array, pixel scales, origin) of the grid "
    "or sampler that produced it",
    "numba is absent, so the @jit kernels run as plain Python (same source)",
]
TECHNIQUE = ("property-based testing (Hypothesis) against a closed-form numpy reference model of the sub-grid, "
             "per-pixel means and the iterative stopping rule, plus exact dyadic boundary cases")

COORD_ATOL = 1e-11   # coordinates are O(1e2): a handful of roundings of 1.4e-14 each
VALUE_REL = 1e-9     # delta = VALUE_REL * max(unit, max|f|), see ASSUMPTIONS
UNDERFLOW = 1e-300   # absolute floor for gradual underflow when generated values are themselves near 1e-308


def _aa():
    import autoarray as aa
    return aa


# ---------------------------------------------------------------------------------------------
# strategies
# ---------------------------------------------------------------------------------------------
@st.composite
def frames(draw, hi=10):
    mask = draw(gens.masks(lo=1, hi=hi))
    return {"mask": mask, "pixel_scales": draw(gens.pixel_scales()), "origin": draw(gens.origins())}


def _n_unmasked(mask):
    return sum(1 for r in mask for v in r if not v)


@st.composite
def sub_maps(draw, n, max_sub=8):
    kind = draw(st.sampled_from(["int", "int", "list", "list", "list", "list", "list-const"]))
    if kind == "int":
        return draw(st.one_of(st.sampled_from([1, 2, 2, 3]), st.integers(1, max_sub)))
    if kind == "list-const":
        return [draw(st.integers(1, max_sub))] * n
    return draw(st.lists(st.integers(1, max_sub), min_size=n, max_size=n))


ALL_KINDS = ("const", "affine", "prod", "quad", "sin", "gauss", "cusp", "abs")


@st.composite
def functions(draw, frame, family=None):
    """Expression-sum user function (see vp/ref/oversample.py) that does not vanish on all pixel centres."""
    mask, ps, origin = frame["mask"], frame["pixel_scales"], frame["origin"]
    h, w = len(mask), len(mask[0])
    sy, sx = ps
    oy, ox = origin
    fam = family or draw(st.sampled_from(["affine", "profile", "profile", "mixed", "mixed", "mixed"]))

    def pos():
        v0 = draw(gens.reals(-(h / 2.0 + 1.0), h / 2.0 + 1.0))
        u0 = draw(gens.reals(-(w / 2.0 + 1.0), w / 2.0 + 1.0))
        return oy + v0 * sy, ox + u0 * sx

    def term(k):
        if k == "const":
            return {"k": "const", "c": draw(gens.reals(-5, 5))}
        y0, x0 = pos()
        t = {"k": k, "y0": y0, "x0": x0}
        if k in ("affine", "quad"):
            t["a"] = draw(gens.reals(-5, 5)); t["b"] = draw(gens.reals(-5, 5, allow_zero=False))
        elif k == "prod":
            t["a"] = draw(gens.reals(-5, 5, allow_zero=False))
        elif k == "sin":
            t["a"] = draw(gens.reals(-5, 5, allow_zero=False))
            t["p"] = draw(st.floats(0.0, 6.0)); t["q"] = draw(st.floats(0.3, 6.0)); t["ph"] = draw(st.floats(0.0, 6.3))
        elif k in ("gauss", "cusp"):
            t["a"] = draw(gens.reals(-5, 5, allow_zero=False))
            t["wy"] = draw(st.floats(0.3, 3.0)); t["wx"] = draw(st.floats(0.3, 3.0))
        elif k == "abs":
            t["a"] = draw(gens.reals(-5, 5, allow_zero=False))
            t["p"] = draw(gens.reals(-2, 2)); t["q"] = draw(gens.reals(-2, 2, allow_zero=False))
        return t

    terms = []
    if fam == "affine":
        terms = [term("const"), term("affine")]
    elif fam == "profile":
        c = draw(st.sampled_from([0.0, 0.0, 0.01, 1.0]))
        if c:
            terms.append({"k": "const", "c": c})
        for _ in range(draw(st.integers(1, 2))):
            t = term(draw(st.sampled_from(["gauss", "cusp"])))
            t["a"] = abs(t["a"])
            terms.append(t)
    else:
        for _ in range(draw(st.integers(1, 4))):
            terms.append(term(draw(st.sampled_from(ALL_KINDS))))
    fn = {"unit": list(ps), "terms": terms, "zero_box": None, "family": fam,
          "frame": {"shape": [h, w], "ps": list(ps), "origin": list(origin)}}
    if fam != "affine" and draw(st.integers(0, 2)) == 0:
        i0 = draw(st.integers(0, h - 1)); i1 = draw(st.integers(i0, min(h - 1, i0 + 2)))
        j0 = draw(st.integers(0, w - 1)); j1 = draw(st.integers(j0, min(w - 1, j0 + 2)))
        fn["zero_box"] = [i0, i1, j0, j1]
    # exclude by construction functions vanishing on all unmasked pixel centres
    c = R.centres(mask, ps, origin)
    if not np.any(R.feval(fn, c)):
        fn["zero_box"] = None
        if not np.any(R.feval(fn, c)):
            fn["terms"] = fn["terms"] + [{"k": "const", "c": 1.0}]
    # magnitude regime: the whole function times an exact power of two (fluxes ~3e-10 are 2**-31.6)
    fn["scale_pow2"] = draw(pow2s)
    return fn


pow2s = st.one_of(st.just(0), st.integers(-120, 60), st.sampled_from([-120, -60, -40, -32, -31, -28, -27]),
                  st.sampled_from([27, 33, 40, 60]))


def _mag_label(ctx, vals):
    v = np.asarray(vals, dtype=float)
    top = float(np.abs(v).max()) if v.size else 0.0
    ctx.label("mag:tiny(<1e-8)" if 0 < top < 1e-8 else "mag:huge(>1e8)" if top > 1e8 else "mag:unit-ish")


extras = st.sampled_from([None, None, 2.0, -0.5, 3.25])


@st.composite
def grid_cases(draw):
    c = draw(frames(hi=10))
    c["sub"] = draw(sub_maps(_n_unmasked(c["mask"])))
    return c


@st.composite
def bin_cases(draw):
    c = draw(frames(hi=10))
    n = _n_unmasked(c["mask"])
    c["sub"] = draw(sub_maps(n))
    c["base"] = draw(st.lists(gens.reals(-100, 100), min_size=n, max_size=n))
    c["amp"] = draw(st.sampled_from([0.0, 1.0, 1.0, 10.0, 0.001]))
    c["salt"] = draw(st.integers(0, 1000))
    c["affine"] = [draw(gens.reals(-5, 5)), draw(gens.reals(-5, 5)), draw(gens.reals(-10, 10))]
    c["const"] = draw(st.one_of(gens.reals(-100, 100), st.sampled_from([0.1, 1.0 / 3.0, 1e-3, 7.7])))
    c["pow2"] = draw(pow2s)
    return c


@st.composite
def decorated_cases(draw):
    c = draw(frames(hi=8))
    n = _n_unmasked(c["mask"])
    h, w = len(c["mask"]), len(c["mask"][0])
    c["sub"] = draw(sub_maps(n))
    # centre handed to the adaptive config scheme (over_sampling=None on the grid)
    c["centre"] = [c["origin"][0] + draw(gens.reals(-h / 2.0, h / 2.0)) * c["pixel_scales"][0],
                   c["origin"][1] + draw(gens.reals(-w / 2.0, w / 2.0)) * c["pixel_scales"][1]]
    c["extra"] = draw(extras)
    c["fn"] = draw(functions(c))
    # points bundled in a Grid2DOverSampled: the sub-grid sent through identity / affine (rotation, shear, scale,
    # shift) / smooth warp with jitter, as a ray-traced grid would be
    c["warp"] = draw(scene.warps())
    return c


@st.composite
def schedules(draw):
    if draw(st.integers(0, 5)) == 0:
        return [2, 4, 8, 16]
    k = draw(st.integers(1, 4))
    vals = draw(st.lists(st.integers(1, 12), min_size=k, max_size=k, unique=True))
    return _ordered(draw, vals)


def _ordered(draw, vals):
    """The schedule is used in the order the caller gives it: ascending (the common use), descending, any
    permutation, or with repeated entries."""
    order = draw(st.sampled_from(["ascending", "ascending", "descending", "permuted", "repeats"]))
    if order == "ascending":
        return sorted(vals)
    if order == "descending":
        return sorted(vals, reverse=True)
    if order == "permuted":
        return list(draw(st.permutations(vals)))
    k = draw(st.integers(max(2, len(vals)), 4))
    return [vals[draw(st.integers(0, len(vals) - 1))] for _ in range(k)]


@st.composite
def iterate_cases(draw):
    c = draw(frames(hi=6))
    c["steps"] = draw(schedules())
    c["frac"] = draw(st.one_of(st.sampled_from([0.5, 0.9, 0.99, 0.999, 0.9999, 1.0, 1e-6, 0.8, 0.95, 0.05]),
                               st.floats(0.05, 1.0)))
    c["rel"] = draw(st.one_of(st.none(), st.sampled_from([1e-6, 1e-4, 1e-3, 1e-2, 0.1, 1.0]), st.floats(1e-6, 0.5)))
    c["as_tuple"] = draw(st.booleans())  # the schedule handed over as a tuple instead of a list
    c["extra"] = draw(extras)
    c["fn"] = draw(functions(c, family=draw(st.sampled_from(["profile", "profile", "profile", "mixed", "mixed", "affine"]))))
    return c


EXACT_VALUES = [0.0, 0.25, 0.5, 1.0, 1.0, 2.0, 2.0, 4.0, 8.0, -1.0, -2.0]


@st.composite
def exact_cases(draw):
    c = draw(frames(hi=5))
    n = _n_unmasked(c["mask"])
    k = draw(st.integers(1, 4))
    subs = sorted(draw(st.lists(st.sampled_from([2, 4, 8, 16]), min_size=k, max_size=k, unique=True)))
    c["subs"] = subs                      # distinct sub-sizes: the table has one value per pixel for 1 and each of them
    c["steps"] = _ordered(draw, subs)     # the schedule: those sub-sizes in any order, possibly repeated
    c["as_tuple"] = draw(st.booleans())
    rows = [draw(st.lists(st.sampled_from(EXACT_VALUES), min_size=len(subs) + 1, max_size=len(subs) + 1))
            for _ in range(n)]
    if not any(r[0] != 0.0 for r in rows):
        rows[0][0] = 1.0  # not all-zero on the pixel centres
    c["values"] = rows
    c["frac"] = draw(st.sampled_from([1.0, 0.5, 0.5, 0.25, 0.125, 0.75, 0.3, 0.9, 0.0625]))
    c["rel"] = draw(st.sampled_from([None, None, None, 0.0, 0.25, 0.5, 1.0, 2.0, 3.0, 4.0, 6.0, 7.0]))
    c["pow2"] = draw(pow2s)  # table values and the absolute tolerance are both multiplied by 2**pow2 (exact)
    return c


# ---------------------------------------------------------------------------------------------
# builders
# ---------------------------------------------------------------------------------------------
def _frame(case):
    aa = _aa()
    m = np.asarray(case["mask"], dtype=bool)
    ps = tuple(float(v) for v in case["pixel_scales"])
    origin = tuple(float(v) for v in case["origin"])
    mask = aa.Mask2D(mask=m.copy(), pixel_scales=ps, origin=origin)
    return m, ps, origin, mask


def _sub_arg(mask, sub):
    """Sub-size as the library takes it: a Python int, or an integer Array2D in slim order."""
    aa = _aa()
    if isinstance(sub, int):
        return int(sub)
    return aa.Array2D(values=np.asarray(sub, dtype=int), mask=mask)


def _frame_labels(ctx, m, ps, origin):
    for l in gens.mask_stats(m):
        ctx.label(l)
    ctx.label("scales:aniso" if ps[0] != ps[1] else "scales:iso")
    ctx.label("origin:zero" if origin == (0.0, 0.0) else "origin:nonzero")


def _sub_labels(ctx, sub, s):
    if isinstance(sub, int):
        ctx.label("sub:int-1" if sub == 1 else "sub:int->1")
    elif len(set(s.tolist())) > 1:
        ctx.label("sub:list-mixed")
    else:
        ctx.label("sub:list-constant")
    if len(s) and s.max() >= 7:
        ctx.label("sub:has-7-8")
    if len(s) and (s == 1).all():
        ctx.label("sub:all-ones")
    ctx.nt(len(set(s.tolist())) > 1)


def _values_of(ctx, out, n, key):
    """Per-pixel values (slim order) of a result that should be an Array2D-like over n pixels."""
    try:
        v = np.asarray(out.slim if hasattr(out, "slim") else out, dtype=float)
    except Exception:
        v = None
    ok = v is not None and v.shape == (n,)
    ctx.check(ok, key + "/result-shape", "result is not one value per unmasked pixel: %r" % (type(out).__name__,))
    return v if ok else None


_P = {}


def _profiles():
    """Harness profile classes, built lazily so the module imports without autoarray."""
    if _P:
        return _P
    aa = _aa()

    class _Base:
        def __init__(self, evalf, centre=(0.0, 0.0)):
            self.evalf = evalf
            self.centre = centre
            self.calls = []

        def _run(self, grid, gain):
            g = grid
            try:
                g = grid.slim
            except AttributeError:
                pass
            pts = np.array(g, dtype=float).reshape(-1, 2)
            vals = gain * self.evalf(pts)
            self.calls.append({"pts": pts, "gain": gain, "out": vals.copy(), "type": type(grid).__name__})
            return vals

    class VPC09Profile(_Base):
        # the stack library callers use: over_sample on top of to_array
        @aa.over_sample
        @aa.grid_dec.to_array
        def stacked(self, grid, gain=1.0, **kwargs):
            return self._run(grid, gain)

        # over_sample directly on the user function (first parameters named obj, grid: see ASSUMPTIONS)
        @aa.over_sample
        def bare(obj, grid, gain=1.0, **kwargs):
            return obj._run(grid, gain)

    def raw(obj, grid, gain=1.0, **kwargs):
        return obj._run(grid, gain)

    _P["cls"] = VPC09Profile
    _P["raw"] = raw
    return _P


def _call(method, grid, extra):
    return method(grid) if extra is None else method(grid, gain=extra)


# ---------------------------------------------------------------------------------------------
# sub-check 1: geometry of the uniform over-sampler
# ---------------------------------------------------------------------------------------------
def _compare_grid(ctx, got, pts, key, what):
    got = np.asarray(got, dtype=float)
    ok = got.shape == pts.shape
    ctx.check(ok, key + "/count", "%s: %s points, expected %s (sum of sub_size^2)" % (what, got.shape, pts.shape))
    if not ok:
        return
    if len(pts) and not np.all(np.abs(got - pts) <= COORD_ATOL):
        # same point set in a different order is a different root cause than wrong coordinates
        a = got[np.lexsort((got[:, 1], got[:, 0]))]
        b = pts[np.lexsort((pts[:, 1], pts[:, 0]))]
        if np.all(np.abs(a - b) <= COORD_ATOL):
            ctx.fail(key + "/order", "%s: right points, wrong order; first differing index %d" % (
                what, int(np.argmax(np.any(np.abs(got - pts) > COORD_ATOL, axis=1)))))
            return
    ctx.close(got, pts, key + "/coords", atol=COORD_ATOL, what=what + " vs closed-form sub-pixel centres")


def body_grid(case, ctx):
    aa = _aa()
    m, ps, origin, mask = _frame(case)
    sub = case["sub"]
    s = R.sub_list(m, sub)
    n = len(s)
    _frame_labels(ctx, m, ps, origin)
    _sub_labels(ctx, sub, s)
    pts, owner = R.sub_grid(m, ps, origin, sub)
    samplers = [
        ("sampler", aa.OverSamplerUniform(mask=mask, sub_size=_sub_arg(mask, sub))),
        ("grid2d", aa.Grid2D.from_mask(mask=mask, over_sampling=aa.OverSamplingUniform(
            sub_size=_sub_arg(mask, sub))).over_sampler),
        ("over_sampling", aa.OverSamplingUniform(sub_size=_sub_arg(mask, sub)).over_sampler_from(mask=mask)),
    ]
    if isinstance(sub, int):
        # the same uniform map given per pixel
        samplers.append(("sampler-list", aa.OverSamplerUniform(mask=mask, sub_size=_sub_arg(mask, [sub] * n))))
    for name, osr in samplers:
        _compare_grid(ctx, osr.over_sampled_grid, pts, "uniform/grid", "over_sampled_grid (%s)" % name)
    direct = aa.util.over_sample.grid_2d_slim_over_sampled_via_mask_from(
        mask_2d=m.copy(), pixel_scales=ps, sub_size=s.copy(), origin=origin)
    _compare_grid(ctx, direct, pts, "uniform/grid", "grid_2d_slim_over_sampled_via_mask_from")
    # the dataset's grids: each of the three grids carries its own over-sampling (three different maps)
    from autoarray.dataset.grids import GridsDataset
    sub_pix = [int(v) % 8 + 1 for v in s]
    sub_non = [int(v) for v in s[::-1]] if not isinstance(sub, int) else (int(sub) + 2) % 8 + 1
    gd = GridsDataset(mask=mask, over_sampling=aa.OverSamplingDataset(
        uniform=aa.OverSamplingUniform(sub_size=_sub_arg(mask, sub)),
        non_uniform=aa.OverSamplingUniform(sub_size=_sub_arg(mask, sub_non)),
        pixelization=aa.OverSamplingUniform(sub_size=_sub_arg(mask, sub_pix))))
    _compare_grid(ctx, gd.uniform.over_sampler.over_sampled_grid, pts, "dataset/grid", "GridsDataset.uniform.over_sampler")
    _compare_grid(ctx, gd.over_sampler_pixelization.over_sampled_grid, R.sub_grid(m, ps, origin, sub_pix)[0],
                  "dataset/grid", "GridsDataset.over_sampler_pixelization")
    _compare_grid(ctx, gd.over_sampler_non_uniform.over_sampled_grid, R.sub_grid(m, ps, origin, sub_non)[0],
                  "dataset/grid", "GridsDataset.over_sampler_non_uniform")

    osr = samplers[0][1]
    ctx.equal(np.asarray(osr.slim_for_sub_slim), owner, "uniform/slim_for_sub_slim",
              "slim_for_sub_slim vs repeat(arange(n), sub^2)")
    ctx.equal(int(osr.sub_total), int((s ** 2).sum()), "uniform/sub_total", "sub_total")
    ctx.close(np.asarray(osr.sub_fraction, dtype=float), 1.0 / s.astype(float) ** 2, "uniform/sub_fraction",
              rtol=1e-15, what="sub_fraction vs 1/sub^2")
    areas = np.asarray(osr.sub_pixel_areas, dtype=float)
    want = (ps[0] * ps[1]) / s[owner].astype(float) ** 2
    ctx.close(areas, want, "uniform/sub_pixel_areas/values", rtol=1e-13, what="area of each sub-pixel")
    if areas.shape == want.shape:
        ctx.close(float(areas.sum()), n * ps[0] * ps[1], "uniform/sub_pixel_areas/sum", rtol=1e-12,
                  what="sum of sub-pixel areas vs unmasked area")


# ---------------------------------------------------------------------------------------------
# sub-check 2: binning
# ---------------------------------------------------------------------------------------------
BIN_FORMS = ("ndarray", "irregular", "list", "util")


def body_bin(case, ctx):
    aa = _aa()
    m, ps, origin, mask = _frame(case)
    sub = case["sub"]
    s = R.sub_list(m, sub)
    n = len(s)
    _frame_labels(ctx, m, ps, origin)
    _sub_labels(ctx, sub, s)
    osr = aa.OverSamplerUniform(mask=mask, sub_size=_sub_arg(mask, sub))
    pts, owner = R.sub_grid(m, ps, origin, sub)
    N = len(owner)

    def impl_bin(values, form):
        v = np.asarray(values, dtype=float)
        if form == "util":
            return aa.util.over_sample.binned_array_2d_from(array_2d=v.copy(), mask_2d=m.copy(), sub_size=s.copy())
        if form == "irregular":
            return osr.binned_array_2d_from(array=aa.ArrayIrregular(values=v.copy()))
        if form == "list":
            return osr.binned_array_2d_from(array=[float(x) for x in v])
        return osr.binned_array_2d_from(array=v.copy())

    # arbitrary values: per-pixel arithmetic mean of the pixel's own sub-values (every input form)
    unit = 2.0 ** int(case.get("pow2", 0))
    base = np.asarray(case["base"], dtype=float)
    values0 = base[owner] + case["amp"] * R.hash01(np.arange(N) + case["salt"])
    values = values0 * unit  # exact scaling by a power of two
    _mag_label(ctx, values)
    want = R.bin_mean(values, owner, n)
    top = float(np.abs(values).max())
    got_nd = None
    for form in BIN_FORMS:
        got = _values_of(ctx, impl_bin(values, form), n, "bin")
        if got is not None:
            # relative: a mean of <= 64 terms carries <= 64 roundings of the largest |value| (plus gradual
            # underflow of products below the normal range, <= 64 * 5e-324)
            ctx.close(got, want, "bin/mean", atol=1e-12 * top + UNDERFLOW,
                      what="binned values (%s input, scale 2**%d) vs per-pixel mean (bincount)" % (form, case.get("pow2", 0)))
            if form == "ndarray":
                got_nd = got
    # binning is linear: scaling the input by 2**k scales the output by exactly 2**k (no subnormals involved)
    nz = np.abs(values0[values0 != 0])
    if unit != 1.0 and got_nd is not None and nz.size and nz.min() * min(unit, 1.0) > 1e-280:
        ctx.label("oracle:exact-scaling")
        got0 = _values_of(ctx, impl_bin(values0, "ndarray"), n, "bin")
        if got0 is not None:
            ctx.equal(got_nd, got0 * unit, "bin/scaling", "binned(2**%d * v) vs 2**%d * binned(v)" % (case["pow2"], case["pow2"]))
    # constants are reproduced
    c = float(case["const"]) * unit
    got = _values_of(ctx, impl_bin(np.full(N, c), "ndarray"), n, "bin")
    if got is not None:
        ctx.close(got, np.full(n, c), "bin/constant", atol=1e-12 * abs(c) + UNDERFLOW, what="binned constant")
    # affine functions of position are reproduced at the pixel centres
    a, b, c0 = case["affine"]
    cen = R.centres(m, ps, origin)
    want = a * cen[:, 0] + b * cen[:, 1] + c0
    tol = 1e-10 * max(1.0, float(np.abs(want).max()))
    got = _values_of(ctx, impl_bin(a * pts[:, 0] + b * pts[:, 1] + c0, "ndarray"), n, "bin")
    if got is not None:
        ctx.close(got, want, "bin/affine", atol=tol, what="binned affine function (reference sub-grid) vs value at centre")
    own = np.asarray(osr.over_sampled_grid, dtype=float)
    if own.shape == pts.shape:
        got = _values_of(ctx, impl_bin(a * own[:, 0] + b * own[:, 1] + c0, "ndarray"), n, "bin")
        if got is not None:
            ctx.close(got, want, "bin/affine-own-grid", atol=tol,
                      what="binned affine function of the over-sampled grid vs value at centre")


# ---------------------------------------------------------------------------------------------
# sub-check 3: functions through the decorator / array_via_func_from (uniform)
# ---------------------------------------------------------------------------------------------
def _fn_labels(ctx, fn):
    ctx.label("fn:" + fn.get("family", "?"))
    if fn.get("zero_box") is not None:
        ctx.label("fn:zero-box")
    for t in fn["terms"]:
        ctx.label("term:" + t["k"])


def _decorated_one(ctx, case, kind, stack, m, ps, origin, mask):
    """Run one entry point on the case and compare with the reference mean."""
    aa = _aa()
    P = _profiles()
    fn = case["fn"]
    extra = case["extra"]
    gain = 1.0 if extra is None else float(extra)
    prof = P["cls"](lambda pts: R.feval(fn, pts), centre=tuple(case["centre"]))
    method = prof.stacked if stack == "to_array" else prof.bare
    sub = case["sub"]
    nmask = int((~m).sum())
    if kind == "adaptive":
        plain_grid = aa.Grid2D.from_mask(mask=mask)
        if plain_grid.is_uniform:
            # the sub-size map is taken from the library's adaptive scheme (not itself under test here)
            sub = [int(v) for v in np.asarray(aa.OverSamplingUniform.from_adaptive_scheme(
                grid=plain_grid, name="VPC09Profile", centre=prof.centre).sub_size)]
            ctx.label("adaptive:mixed-map" if len(set(sub)) > 1 else "adaptive:constant-map")
        else:
            # the decorator only applies the adaptive scheme to grids its is_uniform heuristic accepts
            # (masks with an empty row between unmasked rows are rejected): plain evaluation
            ctx.label("adaptive:rejected-as-non-uniform")
            sub = 1
        out = _call(method, plain_grid, extra)
    elif kind in ("int", "array"):
        arg = _sub_arg(mask, sub if kind == "int" or not isinstance(sub, int) else [sub] * nmask)
        grid = aa.Grid2D.from_mask(mask=mask, over_sampling=aa.OverSamplingUniform(sub_size=arg))
        out = _call(method, grid, extra)
    elif kind == "oversampled":
        osr = aa.OverSamplerUniform(mask=mask, sub_size=_sub_arg(mask, sub))
        grid = aa.Grid2DOverSampled(grid=osr.over_sampled_grid, over_sampler=osr, pixels_in_mask=nmask)
        out = _call(method, grid, extra)
    else:
        osr = aa.OverSamplerUniform(mask=mask, sub_size=_sub_arg(mask, sub))
        kw = {} if extra is None else {"gain": extra}
        if kind == "sampler-obj":
            out = osr.array_via_func_from(P["raw"], prof, **kw)
        else:
            out = osr.array_via_func_from(lambda grid, gain=1.0, **k: prof._run(grid, gain), None, **kw)
    s = R.sub_list(m, sub)
    n = len(s)
    pts, owner = R.sub_grid(m, ps, origin, sub)
    fvals = gain * R.feval(fn, pts)
    want = R.bin_mean(fvals, owner, n)
    unit = R.unit_of(fn)
    delta = VALUE_REL * max(unit, float(np.abs(fvals).max()))  # relative to the function's magnitude
    key = "decorated/" + kind
    tag = "%s/%s" % (kind, stack)

    got = _values_of(ctx, out, n, key)
    if got is None:
        return None
    ctx.close(got, want, key + "/values", atol=delta,
              what="%s: result vs mean of f on the reference sub-grid" % tag)
    if (s == 1).all():
        # sub-size one everywhere: exactly the plain evaluation, i.e. bit-identical to what the function itself
        # returned for a call on the pixel centres
        cen = R.centres(m, ps, origin)
        hit = any(c["pts"].shape == cen.shape and np.all(np.abs(c["pts"] - cen) <= COORD_ATOL)
                  and np.array_equal(got, c["out"]) for c in prof.calls)
        ctx.check(hit, key + "/sub1/plain",
                  "%s: sub-size 1, result %s is not the function's own output on the pixel centres (%d calls)" % (
                      tag, got[:4], len(prof.calls)))
    if R.is_affine_only(fn):
        ctx.label("oracle:affine-at-centres")
        ctx.close(got, gain * R.feval(fn, R.centres(m, ps, origin)), key + "/affine", atol=delta,
                  what=tag + ": affine function reproduced at pixel centres")
    return got


def _scaling_relation(ctx, case, kind, stack, m, ps, origin, mask, got):
    """Uniform over-sampling is linear in f: the result for 2**k * f is exactly 2**k times the result for f."""
    fn = case["fn"]
    unit = R.unit_of(fn)
    if unit == 1.0 or got is None:
        return
    case0 = dict(case)
    case0["fn"] = dict(fn, scale_pow2=0)
    got0 = _decorated_one(ctx, case0, kind, stack, m, ps, origin, mask)
    if got0 is None:
        return
    nz = np.abs(got0[got0 != 0])
    if nz.size and nz.min() * min(unit, 1.0) > 1e-280:
        ctx.label("oracle:exact-scaling")
        ctx.equal(got, got0 * unit, "decorated/%s/scaling" % kind,
                  "%s/%s: result for 2**%d*f vs 2**%d * result for f" % (kind, stack, fn["scale_pow2"], fn["scale_pow2"]))


def _decorated_bundle(ctx, case, stack, m, ps, origin, mask):
    """Grid2DOverSampled whose bundled points are NOT the over-sampler's own grid: the decorator must return, per
    pixel, the mean of the function at that pixel's own bundled sub-values."""
    aa = _aa()
    P = _profiles()
    warp = case.get("warp")
    if warp is None:
        return
    sub = case["sub"]
    n = int((~m).sum())
    pts, owner = R.sub_grid(m, ps, origin, sub)
    bundled = scene.apply_warp(pts, warp, origin)          # the case's input points (exact, no rounding to match)
    moved = bool(len(pts)) and float(np.abs(bundled - pts).max()) > 1e-6 * min(ps)
    ctx.label("bundle:moved" if moved else "bundle:own-grid")
    fn = dict(case["fn"], zero_box=None)                   # pixel boxes have no meaning for displaced points
    extra = case["extra"]
    gain = 1.0 if extra is None else float(extra)
    prof = P["cls"](lambda p: R.feval(fn, p))
    osr = aa.OverSamplerUniform(mask=mask, sub_size=_sub_arg(mask, sub))
    grid = aa.Grid2DOverSampled(grid=aa.Grid2DIrregular(values=bundled.copy()), over_sampler=osr, pixels_in_mask=n)
    out = _call(prof.stacked if stack == "to_array" else prof.bare, grid, extra)
    fvals = gain * R.feval(fn, bundled)
    delta = VALUE_REL * max(R.unit_of(fn), float(np.abs(fvals).max()) if len(fvals) else 0.0)
    got = _values_of(ctx, out, n, "decorated/bundle")
    if got is not None:
        ctx.close(got, R.bin_mean(fvals, owner, n), "decorated/bundle/%s" % ("moved-points" if moved else "own-grid"),
                  atol=delta, what="Grid2DOverSampled/%s: result vs per-pixel mean of f at the bundled points" % stack)


def body_decorated(case, ctx):
    m, ps, origin, mask = _frame(case)
    sub = case["sub"]
    _frame_labels(ctx, m, ps, origin)
    _fn_labels(ctx, case["fn"])
    _sub_labels(ctx, sub, R.sub_list(m, sub))
    ctx.label("extra:none" if case["extra"] is None else "extra:gain")
    _mag_label(ctx, R.feval(case["fn"], R.centres(m, ps, origin)))
    for stack in ("to_array", "bare"):
        if isinstance(sub, int):
            _decorated_one(ctx, case, "int", stack, m, ps, origin, mask)
        got = _decorated_one(ctx, case, "array", stack, m, ps, origin, mask)
        if stack == "to_array":
            _scaling_relation(ctx, case, "array", stack, m, ps, origin, mask, got)
        _decorated_one(ctx, case, "oversampled", stack, m, ps, origin, mask)
        _decorated_bundle(ctx, case, stack, m, ps, origin, mask)
        _decorated_one(ctx, case, "adaptive", stack, m, ps, origin, mask)
    got = _decorated_one(ctx, case, "sampler-obj", "-", m, ps, origin, mask)
    _scaling_relation(ctx, case, "sampler-obj", "-", m, ps, origin, mask, got)
    _decorated_one(ctx, case, "sampler-noobj", "-", m, ps, origin, mask)


# ---------------------------------------------------------------------------------------------
# sub-checks 4/5: the iterative scheme
# ---------------------------------------------------------------------------------------------
ITER_ENTRIES = ("sampler", "over_sampler_from", "decorator-to_array", "decorator-bare")


def _run_iterate(case, entry, mask, prof, extra, rel="case"):
    """`rel` is the absolute tolerance actually handed to the library (the case's value times the function's
    magnitude unit); by default the case's own value."""
    aa = _aa()
    P = _profiles()
    steps = [int(v) for v in case["steps"]]  # in the order given
    if case.get("as_tuple"):
        steps = tuple(steps)
    rel = case["rel"] if rel == "case" else rel
    kw = {} if extra is None else {"gain": extra}
    if entry == "sampler":
        osr = aa.OverSamplerIterate(mask=mask, fractional_accuracy=case["frac"], relative_accuracy=rel,
                                    sub_steps=steps)
        return osr.array_via_func_from(P["raw"], prof, **kw)
    config = aa.OverSamplingIterate(fractional_accuracy=case["frac"], relative_accuracy=rel, sub_steps=steps)
    if entry == "over_sampler_from":
        return config.over_sampler_from(mask=mask).array_via_func_from(P["raw"], prof, **kw)
    grid = aa.Grid2D.from_mask(mask=mask, over_sampling=config)
    method = prof.stacked if entry == "decorator-to_array" else prof.bare
    return _call(method, grid, extra)


def _iterate_labels(ctx, case, ref, steps):
    ok = ~ref["tied"]
    stops = set(ref["stop"][ok].tolist())
    nl = len(steps)
    ctx.label("steps:len-%d" % nl, "rel:none" if case["rel"] is None else "rel:set")
    if len(set(steps)) < nl:
        ctx.label("order:repeats")
    elif nl > 1 and steps == sorted(steps):
        ctx.label("order:ascending")
    elif nl > 1 and steps == sorted(steps, reverse=True):
        ctx.label("order:descending")
    elif nl > 1:
        ctx.label("order:non-monotone")
    if steps == [2, 4, 8, 16]:
        ctx.label("steps:default")
    if len(stops) >= 2:
        ctx.label("stops:mixed")
    if 0 in stops and nl > 1:
        ctx.label("stops:has-first")
    if any(0 < v < nl - 1 for v in stops):
        ctx.label("stops:has-middle")
    if (nl - 1) in stops and nl > 1:
        ctx.label("stops:has-last")
    if ref["nonpos"][ok].any():
        ctx.label("prev:nonpositive")
    if ref["abs_decisive"][ok].any():
        ctx.label("abs-tol:decisive")
    ctx.nt(len(stops) >= 2)


def _fail_class(case, ref, p):
    if case.get("extra") is not None:
        return "extra-kwargs"
    if ref["nonpos"][p]:
        return "nonpositive-prev"
    if ref["abs_decisive"][p]:
        return "abs-tol"
    return "ratio"


def body_iterate(case, ctx):
    P = _profiles()
    m, ps, origin, mask = _frame(case)
    fn = case["fn"]
    extra = case["extra"]
    gain = 1.0 if extra is None else float(extra)
    steps = [int(v) for v in case["steps"]]
    n = int((~m).sum())
    _frame_labels(ctx, m, ps, origin)
    _fn_labels(ctx, fn)
    ctx.label("extra:none" if extra is None else "extra:gain")

    plain = gain * R.feval(fn, R.centres(m, ps, origin))
    if not np.any(plain):
        ctx.label("excluded:all-zero-centres")  # unspecified by the statement (documented early exit)
        ctx.tie(n)
        return
    levels = []
    for sub in steps:
        pts, owner = R.sub_grid(m, ps, origin, sub)
        levels.append(R.bin_mean(gain * R.feval(fn, pts), owner, n))
    # everything is relative to the function's magnitude unit 2**scale_pow2: value error bound, tie bands and
    # the absolute tolerance (the case's tolerance is given in units of the function)
    unit = R.unit_of(fn)
    scale = max(unit, float(np.abs(plain).max()), max(float(np.abs(l).max()) for l in levels))
    delta = VALUE_REL * scale
    rel = None if case["rel"] is None else float(case["rel"]) * unit
    ref = R.iterate_ref(plain, levels, float(case["frac"]), rel, delta, exact_zero=R.zero_pixels(fn, m), unit=unit)
    _iterate_labels(ctx, case, ref, steps)
    _mag_label(ctx, plain)
    ctx.tie(int(ref["tied"].sum()))
    ok = ~ref["tied"]

    first = None
    for entry in ITER_ENTRIES:
        prof = P["cls"](lambda pts: R.feval(fn, pts))
        out = _run_iterate(case, entry, mask, prof, extra, rel=rel)
        got = _values_of(ctx, out, n, "iterate")
        if got is None:
            continue
        # every route performs the same arithmetic: bit-identical results, tied pixels included
        if first is None:
            first = (entry, got)
        else:
            ctx.equal(got, first[1], "iterate/routes-disagree", "%s vs %s on schedule %s" % (entry, first[0], steps))
        bad = ok & ~(np.abs(got - ref["out"]) <= delta)
        ctx.comparisons += int(ok.sum())
        if bad.any():
            p = int(np.argmax(bad))
            ctx.fail("iterate/values/" + _fail_class(case, ref, p),
                     "%s: pixel %d: got %.17g, rule gives %.17g (level %d = sub-size %d of %s; plain %.17g, levels %s; "
                     "accuracy %r, tolerance %r, delta %.3g)" % (
                         entry, p, got[p], ref["out"][p], ref["stop"][p], steps[ref["stop"][p]], steps, plain[p],
                         [float(l[p]) for l in levels], case["frac"], rel, delta))


def body_exact(case, ctx):
    P = _profiles()
    m, ps, origin, mask = _frame(case)
    steps = [int(v) for v in case["steps"]]
    unit = 2.0 ** int(case.get("pow2", 0))
    rows = np.asarray(case["values"], dtype=float) * unit  # exact
    n = int((~m).sum())
    _frame_labels(ctx, m, ps, origin)
    _mag_label(ctx, rows[:, 0])
    ij = np.argwhere(~m)
    subs = [int(v) for v in case.get("subs", steps)]
    tab = {"frame": {"shape": list(m.shape), "ps": list(ps), "origin": list(origin)}, "subs": [1] + subs,
           "values": {"%d,%d" % (ij[k, 0], ij[k, 1]): [float(v) for v in rows[k]] for k in range(n)}}
    plain = rows[:, 0]
    levels = [rows[:, 1 + subs.index(sub)] for sub in steps]  # the schedule as given (any order, repeats)
    frac = float(case["frac"])
    rel = None if case["rel"] is None else float(case["rel"]) * unit  # exact
    ref = R.iterate_ref(plain, levels, frac, rel, 0.0)
    _iterate_labels(ctx, case, ref, steps)
    # boundary classes: an exact tie on some pixel's path
    tie_ratio = np.zeros(n, dtype=bool)
    tie_abs = np.zeros(n, dtype=bool)
    for p in range(n):
        prev = plain[p]
        for l in range(min(ref["stop"][p] + 1, len(steps) - 1)):
            v = levels[l][p]
            if prev > 0 and min(prev, v) / max(prev, v) == frac:
                tie_ratio[p] = True
            if rel is not None and prev > 0 and abs(prev - v) == rel:
                tie_abs[p] = True
            prev = v
    if tie_ratio.any():
        ctx.label("boundary:ratio==accuracy")
    if tie_abs.any():
        ctx.label("boundary:diff==tolerance")

    first = None
    for entry in ITER_ENTRIES:
        prof = P["cls"](lambda pts: R.table_eval(tab, pts))
        out = _run_iterate(case, entry, mask, prof, None, rel=rel)
        got = _values_of(ctx, out, n, "iterate_exact")
        if got is None:
            continue
        if first is None:
            first = (entry, got)
        else:
            ctx.equal(got, first[1], "iterate_exact/routes-disagree", "%s vs %s on schedule %s" % (entry, first[0], steps))
        bad = got != ref["out"]
        ctx.comparisons += n
        if bad.any():
            p = int(np.argmax(bad))
            cls = ("boundary-ratio" if tie_ratio[p] else "boundary-abs" if tie_abs[p] else _fail_class(case, ref, p))
            ctx.fail("iterate_exact/values/" + cls,
                     "%s: pixel %d: got %r, rule gives %r (level %d of %s; plain %r, levels %s; accuracy %r, "
                     "tolerance %r)" % (entry, p, float(got[p]), float(ref["out"][p]), ref["stop"][p], steps,
                                        float(plain[p]), [float(l[p]) for l in levels], frac, rel))


SUBCHECKS = [
    SubCheck("grid", body_grid, strategy=grid_cases(), examples={"quick": 300, "thorough": 6000},
             shards={"quick": 1, "thorough": 3}),
    SubCheck("bin", body_bin, strategy=bin_cases(), examples={"quick": 250, "thorough": 4500},
             shards={"quick": 1, "thorough": 3}),
    SubCheck("decorated", body_decorated, strategy=decorated_cases(), examples={"quick": 400, "thorough": 7500},
             shards={"quick": 1, "thorough": 3}),
    SubCheck("iterate", body_iterate, strategy=iterate_cases(), examples={"quick": 400, "thorough": 12000},
             shards={"quick": 1, "thorough": 4}),
    SubCheck("iterate_exact", body_exact, strategy=exact_cases(), examples={"quick": 500, "thorough": 12000},
             shards={"quick": 1, "thorough": 3}),
]

# ---------------------------------------------------------------------------------------------
# reuse: several different functions evaluated one after the other on the SAME sampler / grid object
# (added after the independently seeded change C09a: a sampler cache keyed by sub-size only is invisible
# when every evaluation builds fresh objects)
# ---------------------------------------------------------------------------------------------
@st.composite
def reuse_cases(draw):
    c = draw(frames(hi=6))
    c["steps"] = draw(schedules())
    c["frac"] = draw(st.sampled_from([0.5, 0.9, 0.99, 0.999, 0.9999, 0.8, 0.95]))
    c["rel"] = draw(st.one_of(st.none(), st.sampled_from([1e-6, 1e-4, 1e-3, 1e-2])))
    c["extra"] = None
    k = draw(st.integers(2, 3))
    c["fns"] = [draw(functions(c, family=draw(st.sampled_from(["profile", "profile", "mixed"])))) for _ in range(k)]
    c["uniform_sub"] = draw(st.integers(1, 4))
    return c


def body_reuse(case, ctx):
    aa = _aa()
    P = _profiles()
    m, ps, origin, mask = _frame(case)
    steps = [int(v) for v in case["steps"]]
    n = int((~m).sum())
    _frame_labels(ctx, m, ps, origin)
    sampler = aa.OverSamplerIterate(mask=mask, fractional_accuracy=case["frac"], relative_accuracy=case["rel"], sub_steps=steps)
    grid_it = aa.Grid2D.from_mask(mask=mask, over_sampling=aa.OverSamplingIterate(
        fractional_accuracy=case["frac"], relative_accuracy=case["rel"], sub_steps=steps))
    grid_un = aa.Grid2D.from_mask(mask=mask, over_sampling=aa.OverSamplingUniform(sub_size=int(case["uniform_sub"])))
    mixed = 0
    for k, fn in enumerate(case["fns"]):
        plain = R.feval(fn, R.centres(m, ps, origin))
        if not np.any(plain):
            ctx.label("excluded:all-zero-centres")
            ctx.tie(n)
            continue
        levels = []
        for sub in steps:
            pts, owner = R.sub_grid(m, ps, origin, sub)
            levels.append(R.bin_mean(R.feval(fn, pts), owner, n))
        unit = R.unit_of(fn)
        scale = max(unit, float(np.abs(plain).max()), max(float(np.abs(l).max()) for l in levels))
        delta = VALUE_REL * scale
        ref = R.iterate_ref(plain, levels, float(case["frac"]), case["rel"], delta, exact_zero=R.zero_pixels(fn, m),
                            unit=unit)
        ok = ~ref["tied"]
        ctx.tie(int(ref["tied"].sum()))
        if len(set(ref["stop"][ok].tolist())) >= 2:
            mixed += 1
        prof = P["cls"](lambda pts, fn=fn: R.feval(fn, pts))
        outs = [
            ("sampler-reused", sampler.array_via_func_from(P["raw"], prof)),
            ("grid-reused/decorator-to_array", _call(prof.stacked, grid_it, None)),
        ]
        for entry, out in outs:
            got = _values_of(ctx, out, n, "reuse")
            if got is None:
                continue
            bad = ok & ~(np.abs(got - ref["out"]) <= delta)
            ctx.comparisons += int(ok.sum())
            if bad.any():
                p = int(np.argmax(bad))
                ctx.fail("reuse/iterate/%s" % ("first-function" if k == 0 else "later-function"),
                         "%s, function %d of %d on the same object: pixel %d: got %.17g, rule gives %.17g (levels %s)" % (
                             entry, k, len(case["fns"]), p, got[p], ref["out"][p], [float(l[p]) for l in levels]))
        # uniform over-sampling through the same grid object
        pts, owner = R.sub_grid(m, ps, origin, int(case["uniform_sub"]))
        want = R.bin_mean(R.feval(fn, pts), owner, n)
        got = _values_of(ctx, _call(prof.stacked, grid_un, None), n, "reuse")
        if got is not None:
            ctx.close(got, want, "reuse/uniform/%s" % ("first-function" if k == 0 else "later-function"), atol=1e-9 * scale,
                      what="uniform over-sampling, function %d on the same grid object" % k)
    ctx.nt(mixed >= 1 and len(case["fns"]) >= 2)


SUBCHECKS.append(SubCheck("reuse", body_reuse, strategy=reuse_cases(), examples={"quick": 200, "thorough": 4000},
                          shards={"quick": 2, "thorough": 8}))


# ---------------------------------------------------------------------------------------------
# shared: ONE configuration object (OverSamplingUniform / OverSamplingIterate / OverSamplingDataset) used
# for several geometries one after the other: masks with the same boolean pattern but different pixel
# scales and/or origin, masks of the same shape with another pattern, and the first geometry again at the
# end.  Every grid / sampler / dataset must get its own sub-grid, areas, binned values and attached mask (a
# sampler cached on the configuration object and keyed on too little hands back the first geometry's).
# ---------------------------------------------------------------------------------------------
@st.composite
def shared_cases(draw):
    base = draw(frames(hi=5))
    h, w = len(base["mask"]), len(base["mask"][0])
    sy, sx = base["pixel_scales"]
    oy, ox = base["origin"]
    geos = [dict(base, relation="first")]
    for _ in range(draw(st.integers(1, 3))):
        relation = draw(st.sampled_from(["same-pattern", "same-pattern", "same-pattern", "same-shape"]))
        vary = draw(st.sampled_from(["scales", "origin", "both"]))
        fy = fx = 1.0
        dy = dx = 0.0
        if vary in ("scales", "both"):
            fy = draw(st.sampled_from([0.5, 2.0, 1.5, 1.0]))
            fx = draw(st.sampled_from([0.5, 2.0, 1.5])) if fy == 1.0 else draw(st.sampled_from([0.5, 2.0, 1.5, 1.0, fy]))
        if vary in ("origin", "both"):
            dy = draw(st.sampled_from([0.0, 1.0, -2.5, 0.5, 7.0]))
            dx = draw(st.sampled_from([1.0, -2.5, 0.5, 7.0])) if dy == 0.0 else draw(st.sampled_from([0.0, 1.0, -2.5, 0.5]))
        mask = base["mask"] if relation == "same-pattern" else draw(gens.masks(shape=[h, w]))
        geos.append({"mask": mask, "pixel_scales": [sy * fy, sx * fx], "origin": [oy + dy * sy, ox + dx * sx],
                     "relation": relation, "vary": vary})
    c = {"geos": geos}
    n0 = _n_unmasked(base["mask"])
    same_n = all(_n_unmasked(g["mask"]) == n0 for g in geos)
    # a per-pixel map can only be shared between masks with the same number of unmasked pixels
    if same_n and draw(st.booleans()):
        c["sub"] = draw(st.lists(st.integers(1, 4), min_size=n0, max_size=n0))
    else:
        c["sub"] = draw(st.integers(1, 4))
    c["sub_pix"] = draw(st.integers(1, 4))
    c["sub_non"] = draw(st.integers(1, 4))
    c["steps"] = draw(schedules())
    c["frac"] = draw(st.sampled_from([0.5, 0.9, 0.99, 0.999, 0.9999, 0.8, 0.95]))
    c["rel"] = draw(st.one_of(st.none(), st.none(), st.sampled_from([1e-4, 1e-3, 1e-2, 0.1])))
    fn = draw(functions(base, family=draw(st.sampled_from(["profile", "profile", "mixed"]))))
    fn["zero_box"] = None  # pixel boxes belong to one geometry; keep the function smooth across all of them
    c["fn"] = fn
    c["salt"] = draw(st.integers(0, 1000))
    return c


def _same_mask(ctx, obj, m, ps, origin, key, what):
    """The mask attached to a sampler / result is the geometry it was asked for (array, scales, origin)."""
    om = getattr(obj, "mask", None)
    ok = om is not None
    if ok:
        a = np.asarray(om)
        ok = a.shape == m.shape and bool(np.array_equal(a.astype(bool), m))
        ok = ok and tuple(float(v) for v in om.pixel_scales) == tuple(ps)
        ok = ok and tuple(float(v) for v in om.origin) == tuple(origin)
    ctx.check(ok, key, "%s: attached mask is not the requested geometry (want scales %s origin %s): got %s / %s" % (
        what, ps, origin, getattr(om, "pixel_scales", None), getattr(om, "origin", None)))


def body_shared(case, ctx):
    aa = _aa()
    P = _profiles()
    from autoarray.dataset.grids import GridsDataset
    geos = case["geos"]
    fn = case["fn"]
    unit = R.unit_of(fn)
    steps = [int(v) for v in case["steps"]]
    sub, sub_pix, sub_non = case["sub"], int(case["sub_pix"]), int(case["sub_non"])
    rel = None if case["rel"] is None else float(case["rel"]) * unit
    m0, ps0, origin0, mask0 = _frame(geos[0])

    # the shared configuration objects, built once
    U = aa.OverSamplingUniform(sub_size=_sub_arg(mask0, sub))
    IT = aa.OverSamplingIterate(fractional_accuracy=case["frac"], relative_accuracy=rel, sub_steps=steps)
    DS = aa.OverSamplingDataset(uniform=U, non_uniform=aa.OverSamplingUniform(sub_size=sub_non),
                                pixelization=aa.OverSamplingUniform(sub_size=sub_pix))
    ctx.label("sub:list" if not isinstance(sub, int) else "sub:int", "geos:%d" % len(geos))
    _mag_label(ctx, R.feval(fn, R.centres(m0, ps0, origin0)))

    order = list(range(len(geos))) + [0]
    for visit, gi in enumerate(order):
        g = geos[gi]
        relation = "revisit-first" if visit == len(order) - 1 else g["relation"]
        ctx.label("relation:" + relation)
        if g.get("vary"):
            ctx.label("vary:" + g["vary"])
        m, ps, origin, mask = _frame(g)
        n = int((~m).sum())
        pts, owner = R.sub_grid(m, ps, origin, sub)
        cen = R.centres(m, ps, origin)
        prof = P["cls"](lambda p: R.feval(fn, p))
        fvals = R.feval(fn, pts)
        want = R.bin_mean(fvals, owner, n)
        delta = VALUE_REL * max(unit, float(np.abs(fvals).max()))

        # --- shared OverSamplingUniform -----------------------------------------------------
        k = "shared/uniform/" + relation
        grid = aa.Grid2D.from_mask(mask=mask, over_sampling=U)
        for name, osr in (("Grid2D.over_sampler", grid.over_sampler), ("over_sampler_from", U.over_sampler_from(mask=mask))):
            _compare_grid(ctx, osr.over_sampled_grid, pts, k + "/grid", name)
            _same_mask(ctx, osr, m, ps, origin, k + "/mask", name)
            areas = np.asarray(osr.sub_pixel_areas, dtype=float)
            s = R.sub_list(m, sub)
            ctx.close(areas, (ps[0] * ps[1]) / s[owner].astype(float) ** 2, k + "/areas", rtol=1e-13,
                      what=name + ": sub-pixel areas")
            vals = R.hash01(np.arange(len(owner)) + case["salt"]) * unit
            out = osr.binned_array_2d_from(array=vals.copy())
            got = _values_of(ctx, out, n, k)
            if got is not None:
                ctx.close(got, R.bin_mean(vals, owner, n), k + "/binned", atol=1e-12 * float(np.abs(vals).max()) + UNDERFLOW,
                          what=name + ": binned values")
                _same_mask(ctx, out, m, ps, origin, k + "/mask", name + " binned result")
        out = _call(prof.stacked, grid, None)
        got = _values_of(ctx, out, n, k)
        if got is not None:
            ctx.close(got, want, k + "/values", atol=delta, what="decorated function on Grid2D sharing the OverSamplingUniform")
            _same_mask(ctx, out, m, ps, origin, k + "/mask", "decorated result")

        # --- shared OverSamplingDataset -------------------------------------------------------
        k = "shared/dataset/" + relation
        ones = aa.Array2D(values=np.ones(n), mask=mask)
        imaging = aa.Imaging(data=ones, noise_map=ones, over_sampling=DS)
        for name, gd in (("GridsDataset", GridsDataset(mask=mask, over_sampling=DS)), ("Imaging.grids", imaging.grids)):
            ctx.close(np.asarray(gd.uniform.slim, dtype=float), cen, k + "/pixel-centres", atol=COORD_ATOL,
                      what=name + ".uniform coordinates vs pixel centres")
            _compare_grid(ctx, gd.uniform.over_sampler.over_sampled_grid, pts, k + "/grid", name + ".uniform.over_sampler")
            _compare_grid(ctx, gd.over_sampler_pixelization.over_sampled_grid, R.sub_grid(m, ps, origin, sub_pix)[0],
                          k + "/grid", name + ".over_sampler_pixelization")
            _compare_grid(ctx, gd.over_sampler_non_uniform.over_sampled_grid, R.sub_grid(m, ps, origin, sub_non)[0],
                          k + "/grid", name + ".over_sampler_non_uniform")
            _same_mask(ctx, gd.over_sampler_pixelization, m, ps, origin, k + "/mask", name + ".over_sampler_pixelization")
            got = _values_of(ctx, _call(prof.stacked, gd.uniform, None), n, k)
            if got is not None:
                ctx.close(got, want, k + "/values", atol=delta, what="decorated function on %s.uniform" % name)

        # --- shared OverSamplingIterate ---------------------------------------------------------
        k = "shared/iterate/" + relation
        plain = R.feval(fn, cen)
        if not np.any(plain):
            ctx.label("excluded:all-zero-centres")
            ctx.tie(n)
            continue
        levels = []
        for st_ in steps:
            p_, o_ = R.sub_grid(m, ps, origin, st_)
            levels.append(R.bin_mean(R.feval(fn, p_), o_, n))
        scale = max(unit, float(np.abs(plain).max()), max(float(np.abs(l).max()) for l in levels))
        d_it = VALUE_REL * scale
        ref = R.iterate_ref(plain, levels, float(case["frac"]), rel, d_it, unit=unit)
        ok = ~ref["tied"]
        ctx.tie(int(ref["tied"].sum()))
        grid_it = aa.Grid2D.from_mask(mask=mask, over_sampling=IT)
        sampler = IT.over_sampler_from(mask=mask)
        _same_mask(ctx, sampler, m, ps, origin, k + "/mask", "OverSamplingIterate.over_sampler_from")
        for name, out in (("decorated on Grid2D", _call(prof.stacked, grid_it, None)),
                          ("over_sampler_from().array_via_func_from", sampler.array_via_func_from(P["raw"], prof))):
            got = _values_of(ctx, out, n, k)
            if got is None:
                continue
            _same_mask(ctx, out, m, ps, origin, k + "/mask", name + " result")
            bad = ok & ~(np.abs(got - ref["out"]) <= d_it)
            ctx.comparisons += int(ok.sum())
            if bad.any():
                p = int(np.argmax(bad))
                ctx.fail(k + "/values", "%s sharing the OverSamplingIterate: pixel %d: got %.17g, rule gives %.17g "
                         "(levels %s of %s)" % (name, p, got[p], ref["out"][p], [float(l[p]) for l in levels], steps))
    ctx.nt(any(g["relation"] == "same-pattern" for g in geos[1:]))


SUBCHECKS.append(SubCheck("shared", body_shared, strategy=shared_cases(), examples={"quick": 150, "thorough": 3000},
                          shards={"quick": 2, "thorough": 6}))


# ---------------------------------------------------------------------------------------------
# tables: the sub-mask and the slim <-> native sub-index tables (uniform sub-size: the only form in which a
# "native" over-sampled frame of shape (H*s, W*s) exists)
# ---------------------------------------------------------------------------------------------
@st.composite
def tables_cases(draw):
    c = draw(frames(hi=8))
    c["sub"] = draw(st.one_of(st.sampled_from([1, 2, 2, 3]), st.integers(1, 6)))
    return c


def body_tables(case, ctx):
    aa = _aa()
    m, ps, origin, mask = _frame(case)
    s = int(case["sub"])
    h, w = m.shape
    ij = np.argwhere(~m)
    n = len(ij)
    _frame_labels(ctx, m, ps, origin)
    ctx.label("sub:%d" % s if s <= 3 else "sub:4-6")
    ctx.nt(s > 1 and n >= 2 and "mask:not-solid-rectangle" in ctx.labels)

    # sub-mask: every pixel of the mask expanded to an s x s block of its own value
    want_sm = np.repeat(np.repeat(m, s, axis=0), s, axis=1)
    got_sm = aa.util.over_sample.oversample_mask_2d_from(mask=m.copy(), sub_size=s)
    ctx.equal(np.asarray(got_sm).astype(bool), want_sm, "tables/sub_mask", "oversample_mask_2d_from vs block expansion")
    ctx.check(np.asarray(got_sm).shape == (h * s, w * s) and int((~np.asarray(got_sm).astype(bool)).sum()) == n * s * s,
              "tables/sub_mask", "sub-mask must hold sub^2 unmasked entries per unmasked pixel")

    # native index of every sub-pixel, in the stated order: pixel by pixel (slim order), then rows top-to-bottom,
    # within a row left-to-right
    y1, x1 = np.meshgrid(np.arange(s), np.arange(s), indexing="ij")
    want_nat = np.concatenate([np.stack([i * s + y1.ravel(), j * s + x1.ravel()], axis=1) for i, j in ij]) \
        if n else np.zeros((0, 2), dtype=int)
    tables = [
        ("util", aa.util.over_sample.native_sub_index_for_slim_sub_index_2d_from(
            mask_2d=m.copy(), sub_size=np.full(n, s, dtype=int))),
        ("sampler(int)", aa.OverSamplerUniform(mask=mask, sub_size=s).sub_mask_native_for_sub_mask_slim),
        ("sampler(list)", aa.OverSamplerUniform(mask=mask, sub_size=_sub_arg(mask, [s] * n)).sub_mask_native_for_sub_mask_slim),
    ]
    for name, got in tables:
        ctx.equal(np.asarray(got), want_nat, "tables/native_for_slim", "sub_mask_native_for_sub_mask_slim (%s)" % name)
    got = np.asarray(tables[1][1])
    if got.shape == want_nat.shape and n:
        # a bijection onto the unmasked entries of the sub-mask
        order = np.lexsort((got[:, 1], got[:, 0]))
        ctx.equal(got[order], np.argwhere(~want_sm), "tables/native_for_slim/bijection",
                  "table rows (sorted) vs the unmasked entries of the sub-mask")
        # consistent with the over-sampled grid: entry k is the pixel of the (H*s, W*s) frame (scales ps/s, same
        # origin) whose centre is the k-th over-sampled coordinate
        osr = aa.OverSamplerUniform(mask=mask, sub_size=s)
        cy = origin[0] + ((h * s - 1) / 2.0 - got[:, 0]) * (ps[0] / s)
        cx = origin[1] + (got[:, 1] - (w * s - 1) / 2.0) * (ps[1] / s)
        own = np.asarray(osr.over_sampled_grid, dtype=float)
        if own.shape == (len(got), 2):
            ctx.close(np.stack([cy, cx], axis=1), own, "tables/native_for_slim/grid-consistency", atol=COORD_ATOL,
                      what="centre of the table's native sub-pixel vs the over-sampled coordinate with the same index")

    # slim index of every native entry of a sub-mask: row-major rank of the unmasked entries, -1 on masked ones
    want_idx = -np.ones(want_sm.shape)
    want_idx[~want_sm] = np.arange(int((~want_sm).sum()))
    got_idx = aa.util.over_sample.sub_slim_index_for_sub_native_index_from(sub_mask_2d=want_sm.copy())
    ctx.equal(np.asarray(got_idx), want_idx, "tables/slim_for_native", "sub_slim_index_for_sub_native_index_from")


SUBCHECKS.append(SubCheck("tables", body_tables, strategy=tables_cases(), examples={"quick": 300, "thorough": 4000},
                          shards={"quick": 1, "thorough": 2}))


# ---------------------------------------------------------------------------------------------
# adapt: sub-size tables produced by the library's own schemes (from_adapt, from_radial_bins with the default
# centre, the dataset's default pixelization over-sampling) must lead to an over-sampled grid / binning that
# obeys the statement; the documented default schedule; the identically-zero function.  The adaptive CHOICE of
# sizes is not checked, only that the table is one documented size per unmasked pixel.
# ---------------------------------------------------------------------------------------------
@st.composite
def adapt_cases(draw):
    c = draw(frames(hi=6))
    n = _n_unmasked(c["mask"])
    c["data"] = draw(st.lists(gens.reals(-10, 10), min_size=n, max_size=n))
    c["noise"] = draw(st.lists(gens.positives(0.1, 5.0), min_size=n, max_size=n))
    c["cut"] = draw(gens.positives(0.25, 10.0))
    c["lower"] = draw(st.integers(1, 4))
    c["upper"] = draw(st.integers(c["lower"], 6))
    k = draw(st.integers(1, 3))
    c["radial_sub"] = draw(st.lists(st.integers(1, 5), min_size=k + 1, max_size=k + 1))
    c["radial"] = sorted(draw(st.lists(st.floats(0.3, 6.0), min_size=k, max_size=k, unique=True)))
    c["frac"] = draw(st.sampled_from([0.5, 0.9, 0.99, 0.999, 0.9999]))
    c["rel"] = draw(st.one_of(st.none(), st.sampled_from([1e-4, 1e-2])))
    c["salt"] = draw(st.integers(0, 1000))
    fn = draw(functions(c, family=draw(st.sampled_from(["profile", "profile", "mixed"]))))
    c["fn"] = fn
    return c


def _table_obeys_statement(ctx, key, os_, sizes_allowed, m, ps, origin, mask, fn, salt, int_table):
    """The sub-size table of an OverSamplingUniform built by the library -> grid, binning, decorated values."""
    aa = _aa()
    P = _profiles()
    n = int((~m).sum())
    tab = np.asarray(getattr(os_.sub_size, "slim", os_.sub_size), dtype=float)
    ok = tab.shape == (n,) and bool(np.all(np.isin(tab, np.asarray(sizes_allowed, dtype=float))))
    ctx.check(ok, key + "/table", "sub-size table %s is not one of the documented sizes %s per unmasked pixel" % (
        tab, sizes_allowed))
    if not ok:
        return None
    sub = [int(v) for v in tab]
    pts, owner = R.sub_grid(m, ps, origin, sub)
    osr = os_.over_sampler_from(mask=mask)
    _compare_grid(ctx, osr.over_sampled_grid, pts, key + "/grid", "over_sampled_grid")
    if int_table:
        ctx.equal(np.asarray(osr.slim_for_sub_slim), owner, key + "/slim_for_sub_slim", "slim_for_sub_slim")
    vals = R.hash01(np.arange(len(owner)) + salt)
    got = _values_of(ctx, osr.binned_array_2d_from(array=vals.copy()), n, key)
    if got is not None:
        ctx.close(got, R.bin_mean(vals, owner, n), key + "/binned", atol=1e-12, what="binned values vs per-pixel mean")
    prof = P["cls"](lambda p: R.feval(fn, p))
    fvals = R.feval(fn, pts)
    delta = VALUE_REL * max(R.unit_of(fn), float(np.abs(fvals).max()))
    got = _values_of(ctx, _call(prof.stacked, aa.Grid2D.from_mask(mask=mask, over_sampling=os_), None), n, key)
    if got is not None:
        ctx.close(got, R.bin_mean(fvals, owner, n), key + "/values", atol=delta,
                  what="decorated function vs mean on the reference sub-grid")
    return sub


def body_adapt(case, ctx):
    aa = _aa()
    P = _profiles()
    from autoarray.dataset.grids import GridsDataset
    m, ps, origin, mask = _frame(case)
    n = int((~m).sum())
    fn = case["fn"]
    _frame_labels(ctx, m, ps, origin)

    # 1. from_adapt: "set to the upper value ... the lower value" per pixel
    data = aa.Array2D(values=np.asarray(case["data"], dtype=float), mask=mask)
    noise = aa.Array2D(values=np.asarray(case["noise"], dtype=float), mask=mask)
    os_ = aa.OverSamplingUniform.from_adapt(data=data, noise_map=noise, signal_to_noise_cut=float(case["cut"]),
                                            sub_size_lower=int(case["lower"]), sub_size_upper=int(case["upper"]))
    sub = _table_obeys_statement(ctx, "adapt/from_adapt", os_, [case["lower"], case["upper"]], m, ps, origin, mask, fn,
                                 case["salt"], True)
    mixed = sub is not None and len(set(sub)) > 1
    ctx.label("from_adapt:mixed" if mixed else "from_adapt:constant")
    ctx.nt(mixed)

    # 2. from_radial_bins with the default centre (the mask centre)
    grid = aa.Grid2D.from_mask(mask=mask)
    radial = [float(r) * min(ps) for r in case["radial"]]
    os_ = aa.OverSamplingUniform.from_radial_bins(grid=grid, sub_size_list=[int(v) for v in case["radial_sub"]],
                                                  radial_list=radial)
    sub = _table_obeys_statement(ctx, "adapt/from_radial_bins", os_, case["radial_sub"], m, ps, origin, mask, fn,
                                 case["salt"], False)
    ctx.label("radial:mixed" if sub is not None and len(set(sub)) > 1 else "radial:constant")

    # 3. the dataset's default pixelization over-sampling (no pixelization scheme given): whatever uniform
    #    sub-size it picks, the sampler obeys the statement
    gd = GridsDataset(mask=mask, over_sampling=aa.OverSamplingDataset())
    sp = gd.pixelization.over_sampling.sub_size
    ok = isinstance(sp, (int, np.integer)) and sp >= 1
    ctx.check(ok, "adapt/default-pixelization/sub_size", "default pixelization sub-size is %r" % (sp,))
    if ok:
        _compare_grid(ctx, gd.over_sampler_pixelization.over_sampled_grid, R.sub_grid(m, ps, origin, int(sp))[0],
                      "adapt/default-pixelization/grid", "GridsDataset.over_sampler_pixelization (default)")
        ctx.close(np.asarray(gd.pixelization.slim, dtype=float), R.centres(m, ps, origin),
                  "adapt/default-pixelization/pixel-centres", atol=COORD_ATOL, what="GridsDataset.pixelization coordinates")

    # 4. the documented default schedule: "If None, they are setup as the default values [2, 4, 8, 16]"
    unit = R.unit_of(fn)
    rel = None if case["rel"] is None else float(case["rel"]) * unit
    plain = R.feval(fn, R.centres(m, ps, origin))
    if np.any(plain):
        steps = [2, 4, 8, 16]
        levels = []
        for st_ in steps:
            p_, o_ = R.sub_grid(m, ps, origin, st_)
            levels.append(R.bin_mean(R.feval(fn, p_), o_, n))
        scale = max(unit, float(np.abs(plain).max()), max(float(np.abs(l).max()) for l in levels))
        delta = VALUE_REL * scale
        ref = R.iterate_ref(plain, levels, float(case["frac"]), rel, delta, exact_zero=R.zero_pixels(fn, m), unit=unit)
        ok_p = ~ref["tied"]
        ctx.tie(int(ref["tied"].sum()))
        it = aa.OverSamplingIterate(fractional_accuracy=case["frac"], relative_accuracy=rel)
        prof = P["cls"](lambda p: R.feval(fn, p))
        for name, out in (("decorator", _call(prof.stacked, aa.Grid2D.from_mask(mask=mask, over_sampling=it), None)),
                          ("over_sampler_from", it.over_sampler_from(mask=mask).array_via_func_from(P["raw"], prof))):
            got = _values_of(ctx, out, n, "adapt/default-schedule")
            if got is None:
                continue
            bad = ok_p & ~(np.abs(got - ref["out"]) <= delta)
            ctx.comparisons += int(ok_p.sum())
            if bad.any():
                p = int(np.argmax(bad))
                ctx.fail("adapt/default-schedule/values", "%s with sub_steps=None: pixel %d: got %.17g, rule on "
                         "[2,4,8,16] gives %.17g (levels %s)" % (name, p, got[p], ref["out"][p], [float(l[p]) for l in levels]))

    # 5. the identically-zero function: every level is 0, so the value at the last sub-size is 0
    zero = P["cls"](lambda p: np.zeros(len(p)))
    it = aa.OverSamplingIterate(fractional_accuracy=case["frac"], relative_accuracy=rel, sub_steps=[2, 4])
    for name, out in (("decorator", _call(zero.stacked, aa.Grid2D.from_mask(mask=mask, over_sampling=it), None)),
                      ("over_sampler_from", it.over_sampler_from(mask=mask).array_via_func_from(P["raw"], zero))):
        got = _values_of(ctx, out, n, "adapt/zero-function")
        if got is not None:
            ctx.equal(got, np.zeros(n), "adapt/zero-function/values", name + ": identically-zero function")


SUBCHECKS.append(SubCheck("adapt", body_adapt, strategy=adapt_cases(), examples={"quick": 150, "thorough": 3000},
                          shards={"quick": 1, "thorough": 3}))
