"""C05 — the reconstruction is the true (non-negative) least-squares optimum."""
import numpy as np
from hypothesis import strategies as st
from hypothesis import target as _target
from hypothesis.control import currently_in_test_context


def target(value, label=""):
    if currently_in_test_context():  # not when a saved case is replayed outside Hypothesis
        _target(value, label=label)

from vp import gens, scene
from vp.engine import SubCheck

PROPERTY = "C05"
RULE = (
    "(extended) solver systems come in structures plain / mirror (float, invariant under swapping two halves) / mirror-int (small-integer design matrix with mirrored pairs: exact ties, several parameters leave the passive set in one step) / deconv (1D blurred-source systems with 12-40 unknowns). "
    "solver: SPD systems Z^T Z + ridge (n 1..12, m>=n rows, singular values geometric with condition 1..1e8, "
    "orthogonal factors from QR of generated matrices), right-hand sides Z^T x with x positive / zero-mean / "
    "mostly negative / arbitrary, solved by fnnls_cholesky cold (empty P_initial) and warm (production rule: sign "
    "pattern of the unconstrained solution); inversion: C04-style scenarios (positive, zero-mean, negative data) x "
    "use_positive_only_solver x positive_only_uses_p_initial x force_edge_pixels_to_zeros x formalism. Oracle: "
    "certificates, not a second solver - unconstrained: |(F+H)s-D| small relative to |F+H||s|+|D|, or "
    "InversionException; positive-only: s>=0, |g_i|<=tol on s_i>0, g_i>=-tol on s_i=0 with g=(F+H)s-D "
    "(KKT, certifies the unique minimiser for SPD systems), forced-zero parameters exactly 0 and KKT on the "
    "reduced system; per-object mapped data = blurred matrix @ slice of s, summing to the total. "
    "hypothesis.target(max KKT violation). Non-trivial = the unconstrained solution has a negative entry; "
    "distinct = SHA-1 of the canonical case."
)
ASSUMPTIONS = [
    "KKT tolerance 1e-8 relative to max(|A||s| + |D|) (cold-start residuals measured at ~1e-16 on 3000 probe systems with condition up to 1e8)",
    "the inversion-level KKT certificate uses the inversion's own data_vector and curvature_reg_matrix, which C04 checks independently",
    "an InversionException from the positive-only path is accepted only when the reduced system is empty or cond(F+H) > 1e12",
    "fnnls uses an absolute tolerance n*eps, so systems whose right-hand-side terms are all below 1e-6 in magnitude are excluded (counted as tie-band exclusions)",
]
TECHNIQUE = "Hypothesis-generated SPD systems and inversions checked against KKT optimality certificates, with targeted search on the KKT residual"

KKT_RTOL = 1e-8


def kkt_violation(a, b, s, free=None, natural=0.0):
    """Returns (relative violation, description). free = boolean mask of parameters allowed to be
    non-zero (None = all). `natural` = magnitude of the terms summed into b (so that a right-hand side that is
    pure rounding noise of cancelling terms does not define the scale)."""
    a = np.asarray(a, dtype=float); b = np.asarray(b, dtype=float); s = np.asarray(s, dtype=float)
    if s.shape != b.shape or not np.all(np.isfinite(s)):
        return np.inf, "solution has wrong shape or non-finite entries: %r" % (s,)
    g = a @ s - b
    scale = float((np.abs(a) @ np.abs(s) + np.abs(b)).max()) + 1e-5 * float(natural) + 1e-300
    if free is None:
        free = np.ones(len(s), dtype=bool)
    worst, desc = 0.0, ""
    if (s < 0).any():
        v = float(-s.min()) / (float(np.abs(s).max()) + 1e-300)
        return max(v, 1.0), "negative entry in solution: min=%r" % s.min()
    if (s[~free] != 0).any():
        return 1.0, "forced-zero parameter is non-zero: %r" % s[~free]
    pos = (s > 0) & free
    zer = (s == 0) & free
    if pos.any():
        v = float(np.abs(g[pos]).max()) / scale
        if v > worst:
            worst, desc = v, "gradient does not vanish on a positive entry: max|g|=%g (scale %g)" % (np.abs(g[pos]).max(), scale)
    if zer.any():
        v = float(max(0.0, (-g[zer]).max())) / scale
        if v > worst:
            worst, desc = v, "gradient negative on a zero entry (descent direction exists): min g=%g (scale %g)" % (g[zer].min(), scale)
    return worst, desc


# ---------------------------------------------------------------------------------------------
@st.composite
def systems(draw):
    n = draw(st.integers(1, 12))
    m = n + draw(st.integers(0, 4))
    zraw = draw(st.lists(gens.reals(-3, 3), min_size=m * n, max_size=m * n))
    logc = draw(st.sampled_from([0.0, 1.0, 2.0, 4.0, 6.0, 8.0]))
    xkind = draw(st.sampled_from(["positive", "zero-mean", "negative", "any", "any"]))
    x = draw(st.lists(gens.reals(-3, 3), min_size=m, max_size=m))
    shift = {"positive": 3.5, "negative": -2.0}.get(xkind, 0.0)
    x = [v + shift for v in x]
    if xkind == "zero-mean":
        mu = sum(x) / m
        x = [v - mu for v in x]
    return {"n": n, "m": m, "z": zraw, "logcond": logc, "x": x, "xkind": xkind,
            "ridge": draw(st.sampled_from([0.0, 1e-10, 1e-6, 1e-2])),
            # structure: "mirror" = system invariant under swapping two halves of the unknowns (exact ties: several
            # parameters leave the passive set in the same step); "deconv" = 1D blurred-source system, larger and
            # ill-conditioned (many add/drop swaps of the active-set iteration)
            "structure": draw(st.sampled_from(["plain", "plain", "mirror", "mirror-int", "mirror-int", "mirror-int", "mirror-int", "deconv"])),
            "pairs": draw(st.integers(1, 3)), "axis": draw(st.integers(0, 2)), "half": draw(st.integers(3, 5)),
            "ints": draw(st.lists(st.integers(-3, 3), min_size=5 * 8 + 5, max_size=5 * 8 + 5)),
            "big_n": draw(st.integers(12, 40)), "width": draw(st.floats(0.6, 3.0)), "reg": draw(st.sampled_from([1e-6, 1e-4, 1e-2]))}


def _system(case):
    st_ = case.get("structure", "plain")
    if st_ == "deconv":
        n = int(case["big_n"])
        idx = np.arange(n)
        blur = np.exp(-0.5 * ((idx[:, None] - idx[None, :]) / float(case["width"])) ** 2)
        blur /= blur.sum(axis=1, keepdims=True)
        xs = np.resize(np.asarray(case["x"], dtype=float), n)
        lap = 2 * np.eye(n) - np.eye(n, k=1) - np.eye(n, k=-1)
        a = blur.T @ blur + float(case["reg"]) * lap + 1e-10 * np.eye(n)
        a = (a + a.T) / 2.0
        b = blur.T @ xs
        return a, b, float((np.abs(blur).T @ np.abs(xs)).max())
    if st_ == "mirror-int":
        # small-integer design matrix with mirrored pairs of unknowns and mirrored data: A and b are exact and
        # exactly invariant under swapping each pair, so paired parameters cross zero in the very same step
        m_, k_, h_ = int(case["pairs"]), int(case["axis"]), int(case["half"])
        v = np.asarray(case["ints"], dtype=float)
        A_ = v[:h_ * m_].reshape(h_, m_); B_ = v[15:15 + h_ * m_].reshape(h_, m_); S_ = v[30:30 + h_ * k_].reshape(h_, k_) if k_ else np.zeros((h_, 0))
        z = np.zeros((2 * h_, 2 * m_ + k_))
        z[:h_, :m_], z[h_:, :m_] = A_, B_
        z[:h_, m_:2 * m_], z[h_:, m_:2 * m_] = B_, A_
        if k_:
            z[:h_, 2 * m_:], z[h_:, 2 * m_:] = S_, S_
        xh = v[40:40 + h_]
        x = np.concatenate([xh, xh])
        return z.T @ z + np.eye(2 * m_ + k_), z.T @ x, float((np.abs(z).T @ np.abs(x)).max()) + 1.0
    if st_ == "mirror":
        a0, b0, nat = _system(dict(case, structure="plain"))
        k = len(b0)
        perm = np.arange(k)[::-1]
        q = 0.5 * a0[perm][:, perm] * 0.6
        q = (q + q.T) / 2.0
        a = np.block([[a0 + np.abs(q).sum() * 0 * np.eye(k), q], [q, a0]])
        # make it safely positive definite without breaking the exact mirror symmetry
        shift = max(0.0, 1e-6 - float(np.linalg.eigvalsh(a).min()))
        a = a + (shift * 1.5) * np.eye(2 * k)
        b = np.concatenate([b0, b0])
        return a, b, nat
    n, m = case["n"], case["m"]
    z = np.asarray(case["z"], dtype=float).reshape(m, n) + 0.1 * np.eye(m, n)
    u, _ = np.linalg.qr(z)
    v, _ = np.linalg.qr(z.T @ z + np.eye(n) + np.triu(np.ones((n, n)), 1) * 0.3)
    sv = np.geomspace(1.0, 10.0 ** (-case["logcond"] / 2.0), n)
    zz = (u[:, :n] * sv) @ v.T
    a = zz.T @ zz + case["ridge"] * np.eye(n)
    a = (a + a.T) / 2.0
    x = np.asarray(case["x"], dtype=float)
    b = zz.T @ x
    return a, b, float((np.abs(zz).T @ np.abs(x)).max())


def body_solver(case, ctx):
    from autoarray.util.fnnls import fnnls_cholesky
    a, b, natural = _system(case)
    cond = np.linalg.cond(a)
    if not np.isfinite(cond) or cond > 1e12:
        ctx.label("cond>1e12:skipped"); ctx.tie(); return
    if natural < 1e-6:
        ctx.label("rhs<1e-6:skipped"); ctx.tie(); return
    unc = np.linalg.solve(a, b)
    ctx.nt(bool((unc < 0).any()))
    ctx.label("structure:%s" % case.get("structure", "plain"), "n:%s" % ("<=12" if len(b) <= 12 else "13-24" if len(b) <= 24 else ">24"))
    ctx.label("x:%s" % case["xkind"], "cond:1e%d" % int(round(np.log10(cond))),
              "unconstrained:has-negative" if (unc < 0).any() else "unconstrained:all-positive",
              "unconstrained:all-negative" if (unc <= 0).all() else None)
    worst = 0.0
    for mode in ("cold", "warm"):
        if mode == "cold":
            p0 = np.zeros(0, dtype=int)
        else:
            p0 = np.linalg.solve(a, b) > 0  # exactly the production rule
        sub = "warm-start-infeasible" if (mode == "warm" and (np.linalg.solve(a[p0][:, p0], b[p0]) <= 0).any()) else mode if p0.shape[0] == 0 or p0.any() else "warm-start-empty"
        s = ctx.impl("fnnls/%s" % sub, fnnls_cholesky, a.copy(), b.copy(), P_initial=p0)
        v, desc = kkt_violation(a, b, s, natural=natural)
        worst = max(worst, v if np.isfinite(v) else 1.0)
        ctx.check(v <= KKT_RTOL, "fnnls/%s/kkt" % sub, lambda: "%s; n=%d cond=%.1e s=%s unconstrained=%s" % (desc, len(b), cond, s, unc))
    # the same kind of system handed over as whole numbers in an integer dtype (B^T B + I is SPD for any integer B)
    bi = np.rint(b / np.abs(b).max() * 9.0).astype(np.int64)
    if np.abs(bi).max() >= 1:
        Bm = np.rint(a / np.abs(a).max() * 4.0).astype(np.int64)
        ai = Bm.T @ Bm + np.eye(len(bi), dtype=np.int64)
        ctx.label("int64-system")
        for mode in ("cold", "warm"):
            p0 = np.zeros(0, dtype=int) if mode == "cold" else (np.linalg.solve(ai.astype(float), bi.astype(float)) > 0)
            s_i = ctx.impl("fnnls/int64/%s" % mode, fnnls_cholesky, ai.copy(), bi.copy(), P_initial=p0)
            v, desc = kkt_violation(ai, bi, s_i, natural=float(np.abs(bi).max()))
            ctx.check(v <= KKT_RTOL, "fnnls/int64/%s/kkt" % mode, lambda: "%s; int64 A=%s b=%s s=%s" % (desc, ai.tolist(), bi.tolist(), s_i))
    target(float(min(worst, 1.0)), label="kkt")


# ---------------------------------------------------------------------------------------------
@st.composite
def inversion_case(draw):
    c = draw(scene.scenarios(max_objs=2, img_kwargs=dict(max_inner=5, max_k=3, kernel_kinds=("nonneg", "normalised", "signed")),
                             obj_kwargs=dict(max_sub=2, max_mesh=4, reg_none=True)))
    c["positive_only"] = draw(st.sampled_from([True, True, False]))
    c["p_initial"] = draw(st.booleans())
    c["force_edge"] = draw(st.booleans())
    c["use_w_tilde"] = draw(st.booleans())
    return c


def body_inversion(case, ctx):
    import autoarray as aa
    from autoarray import exc
    from vp.ref import conv as refconv
    scene.scene_labels(case, ctx)
    sc = scene.build_scene(case)
    settings = aa.SettingsInversion(use_w_tilde=case["use_w_tilde"], use_positive_only_solver=case["positive_only"],
                                    positive_only_uses_p_initial=case["p_initial"], force_edge_pixels_to_zeros=case["force_edge"],
                                    no_regularization_add_to_curvature_diag_value=1e-3)
    mode = ("positive" if case["positive_only"] else "unconstrained") + ("+p_initial" if case["positive_only"] and case["p_initial"] else "") + \
           ("+force-edge" if case["positive_only"] and case["force_edge"] else "")
    ctx.label("mode:%s" % mode, "formalism:%s" % ("w_tilde" if case["use_w_tilde"] else "mapping"))
    inv = aa.Inversion(dataset=sc.dataset, linear_obj_list=sc.objs, settings=settings)
    d = np.array(inv.data_vector, dtype=float)
    fh = np.array(inv.curvature_reg_matrix, dtype=float).copy()
    n = len(d)
    cond = np.linalg.cond(fh)
    free = np.ones(n, dtype=bool)
    if case["positive_only"] and case["force_edge"]:
        ids = np.asarray(inv.mapper_edge_pixel_list, dtype=int)
        free[ids] = False
        ctx.label("forced-zero:some" if len(ids) else "forced-zero:none")
    try:
        unc = np.linalg.solve(fh[free][:, free], d[free]) if free.any() else np.zeros(0)
    except np.linalg.LinAlgError:
        unc = np.zeros(0)
    ctx.nt(bool((unc < 0).any()))
    ctx.label("unconstrained:has-negative" if (unc < 0).any() else "unconstrained:all-positive")
    try:
        s = np.array(inv.reconstruction, dtype=float)
    except exc.InversionException:
        if case["positive_only"]:
            ok = (not free.any()) or cond > 1e12
            ctx.check(ok, "inversion/%s/unexpected-InversionException" % mode, "InversionException although reduced system non-empty and cond=%.2e" % cond)
        ctx.label("raised:InversionException")
        return
    if cond > 1e12:
        ctx.tie(); ctx.label("cond>1e12:skipped")
        return
    bop = np.asarray(inv.operated_mapping_matrix, dtype=float)
    natural = float((np.abs(bop).T @ np.abs(np.asarray(case["data"]) / np.asarray(case["noise"]) ** 2)).max())
    if natural < 1e-6:
        # fnnls works with an absolute tolerance n*eps: right-hand sides of (physically meaningless) magnitude
        # below 1e-6 are outside the regime the statement is about; excluded and counted.
        ctx.tie(); ctx.label("rhs<1e-6:skipped")
        return
    if case["positive_only"]:
        v, desc = kkt_violation(fh, d, s, free, natural=natural)
        ctx.check(v <= KKT_RTOL, "inversion/%s/kkt" % mode, lambda: "%s; cond=%.1e s=%s" % (desc, cond, s))
        target(float(min(v, 1.0)) if np.isfinite(v) else 1.0, label="kkt")
    else:
        r = fh @ s - d
        scale = float((np.abs(fh) @ np.abs(s) + np.abs(d)).max()) + 1e-5 * natural + 1e-300
        ctx.check(np.abs(r).max() <= 1e-9 * scale * max(1.0, np.sqrt(cond)), "inversion/unconstrained/normal-equations",
                  lambda: "|(F+H)s-D|=%g scale=%g cond=%.1e" % (np.abs(r).max(), scale, cond))
    # per-object model data
    m = np.asarray(case["mask"], dtype=bool)
    a_mask, _, _ = refconv.operators(m, np.asarray(case["kernel"], dtype=float))
    total = np.zeros(int((~m).sum()))
    start = 0
    mdict = inv.mapped_reconstructed_data_dict
    rdict = inv.reconstruction_dict
    for obj in sc.objs:
        mm = np.asarray(obj.mapping_matrix, dtype=float)
        k = mm.shape[1]
        sl = s[start:start + k]
        want = a_mask @ mm @ sl
        tol = 1e-9 * (np.abs(a_mask @ np.abs(mm) @ np.abs(sl)).max() + 1.0)
        ctx.equal(np.asarray(rdict[obj]), sl, "inversion/reconstruction_dict", "slice of s for object")
        ctx.close(np.asarray(mdict[obj]), want, "inversion/mapped_reconstructed_data_dict/%s" % ("w_tilde" if case["use_w_tilde"] else "mapping"),
                  atol=tol, what="per-object mapped data vs blurred matrix @ slice")
        total += want
        start += k
    ctx.close(np.asarray(inv.mapped_reconstructed_data), total, "inversion/mapped_reconstructed_data-sum", atol=1e-9 * (np.abs(total).max() + 1.0),
              what="sum of per-object mapped data vs total")


SUBCHECKS = [
    SubCheck("solver", body_solver, strategy=systems(), examples={"quick": 8000, "thorough": 80000}, shards={"quick": 16, "thorough": 16}),
    SubCheck("inversion", body_inversion, strategy=inversion_case(), examples={"quick": 800, "thorough": 8000}, shards={"quick": 8, "thorough": 16}),
]
