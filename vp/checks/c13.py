"""C13 — direct Fourier transform, its preload variant and adjoint; interferometer mapping-formalism
normal equations."""
import importlib
import inspect

import numpy as np
from hypothesis import strategies as st

from vp import gens, scene
from vp.engine import SubCheck
from vp.ref import dft

PROPERTY = "C13"
RULE = (
    "Hypothesis cases: masks up to 6x6 from every gens.masks family (holes, several components, 1xN, full), pixel "
    "scales 0.05..5 arcsec (iso/anisotropic), origins up to 20 arcsec, 1..8 baselines with components +-1e2..1e6 "
    "wavelengths (log-uniform, round values, single-axis, the zero baseline, repeated baselines); real signed images "
    "given slim-stored and native-stored; complex visibilities; real matrices (non-negative, signed, sparse-signed, "
    "fractional, tiny); complex noise maps with independent positive real and imaginary parts; preload_transform on "
    "and off in every case. Oracle: dense A[k,p]=exp(-2 pi i (x_p u_k + y_p v_k)) built in numpy from the closed-form "
    "pixel centres (vp/ref/dft.py): visibilities_from == A I, preload == direct, image_from == Re(A^H V) placed on the "
    "mask, <A I, V> == <I, A^H V> (dot-product test), transform_mapping_matrix(M) == A M (also through M = M+ - M- by "
    "linearity; a mismatch on a matrix with negative entries while the linearity form holds is keyed as the "
    "dropped-entries class), the util functions called directly with the reference grid; InversionInterferometerMapping (built "
    "directly, through the factory on a DatasetInterface, and on an Interferometer with transformer_class=TransformerDFT; "
    "1..2 linear objects from {signed function list, rectangular mapper}, with/without regularization): "
    "operated_mapping_matrix == A M, D and F == noise-weighted real+imaginary Gram products of the transformed mapping "
    "matrix (of the implementation's own transformed matrix, and end to end of A M) plus the explicit eps on "
    "unregularized parameters, F symmetric. family: 2-4 TransformerDFT configurations built one after the other inside "
    "one case (all constructed before any is used, preload on and off, some through aa.Interferometer, the first one "
    "re-built at the end) that share frame shape, pixel scales, origin, byte-identical baselines and the number of "
    "unmasked pixels and differ in exactly one thing - which pixels are unmasked (move one pixel / mirror / shift / "
    "fresh subset), the origin, the pixel scales, one baseline, or nothing - each checked against the dense operator of "
    "its own configuration (grid, visibilities_from, transform_mapping_matrix, image_from). cancel: masks symmetric "
    "under a mirror map (point reflection about the mask origin, x-flip, y-flip) with zero origin on the negated axes "
    "(mirrored centres exactly negated) and compatible baselines (any / v=0 / u=0, plus zero and generic ones), matrix "
    "columns exactly antisymmetric (single pair or all pairs), exactly symmetric, summing exactly to zero, zero, or "
    "generic (first column always antisymmetric, second symmetric), visibilities with exactly zero real or imaginary "
    "parts: transformed matrix, visibilities_from of each column, image_from, util kernels, the data-vector kernel, "
    "and D / F of inversions fed (i) through the transformer and (ii) with a preloaded transformed matrix whose "
    "antisymmetric columns are purely imaginary and symmetric columns purely real by construction. state: one "
    "Visibilities object through a generated sequence - read cached / derived quantities (amplitudes, phases, in_array, "
    "ordered_1d, in_grid, scaled_maxima), image_from, in-place edits (integer index, boolean index, slice; zero or "
    "arbitrary values), image_from again, derived objects (scalar multiple, copy, slice) edited in turn - every "
    "image_from result and, at the end, every object created against Re(A^H V) of the values that object holds at that "
    "moment (np.array of the object); a VisibilitiesNoiseMap (and the data) edited in place after being read / after a "
    "first inversion, plus derived noise maps (multiple, copy-then-edit), then D and F of a new inversion "
    "(DatasetInterface, or an Interferometer built before the edit) against the Gram products of the current values. "
    "large (enumerated, seed-independent): 1-3 unmasked pixels and 131073 / 100001 baselines in quick, additionally "
    "65535, 65536, 65537, 99999, 100000, 100001, 131073, 262145 in thorough (Kronecker-sequence baselines up to 9e5 "
    "wavelengths with a zero and a repeated baseline inside, closed-form visibilities; one path per case, preload on "
    "and off over the list): visibilities_from, transform_mapping_matrix (1-2 columns) and image_from against the "
    "float64 dense operator at 1e-12 of the summed magnitudes. Keyword parameters the default call never sets: "
    "image_from(use_adjoint_scaling=) is drawn from {not passed, False, True} in transform, state and large - the "
    "statement has no such qualifier and the DFT class neither documents nor applies a scaling, so every value must "
    "give Re(A^H V). "
    "Direct calls of internal kernels are bound to the kernel's current signature first; a kernel that is missing or "
    "cannot be bound is labelled util-signature-changed and that comparison is skipped. Non-trivial = at "
    "least two distinct non-zero baselines and a mask with both masked and unmasked pixels (matrix: additionally a "
    "negative entry; family: >= 2 distinct layouts and a non-zero baseline; cancel: a non-zero baseline and entries "
    "with Re == 0 != Im and with Im == 0 != Re present; state: an in-place edit that changed values after a read or an "
    "image_from, and a non-zero baseline); distinct = SHA-1 of the canonical case."
)
ASSUMPTIONS = [
    "a stand-in `pylops.LinearOperator` base class (vp/stubs/pylops.py) is installed so TransformerDFT can be constructed; the DFT code never calls into it",
    "pixel centres follow C02's closed form y=((H-1)/2-i)*sy+oy, x=(j-(W-1)/2)*sx+ox, radians = arcsec*pi/648000; the transformer's grid is compared to it at rtol 1e-12 plus 1e-12 of (largest |coordinate| + one pixel)",
    "tolerances: values 1e-9 relative to the sum of the magnitudes of the summed terms (|phase| <= ~2200 rad so cos/sin carry <= ~1e-12 absolute error); preload vs direct 1e-12 on the same scale; D and F 1e-9 of the largest sum of term magnitudes; symmetry 1e-12; every tolerance scale has an absolute floor of 1e-280 so that denormal inputs (whose products underflow) are not compared relatively",
    "the mappers' own mapping_matrix is taken as input for the inversion sub-check (its content belongs to C06)",
    "exact cancellation in the cancel sub-check relies on IEEE sign symmetry (x*u + y*v, cos even, sin odd) and on the closed-form centres being exactly negated under the mirror at zero origin (verified for every frame up to 6x6); the class frequency is reported by the T:has-Re==0!=Im / T:has-Im==0!=Re labels, and the preloaded route does not depend on it",
    "state shared between transformers can only be observed within one process: the family sub-check puts the whole sequence inside one case so a failing case replays in a fresh process; a failure reported by another sub-check under such a change may depend on earlier cases of the same worker",
    "internal kernels (autoarray.operators.transformer_util, inversion_interferometer_util) are not part of the property's public surface: their direct comparisons are extra sensitivity only and are skipped (label util-signature-changed, counted in the label histogram) when the kernel cannot be called with the keyword names the check knows; TransformerDFT methods and inversion quantities decide the property",
    "the state sub-check takes np.array(object) as the values an object currently holds; it does not judge the semantics of __setitem__ / slicing (views) themselves, nor the staleness of the object's own cached attributes (amplitudes, ordered_1d) - only what image_from and the inversion make of the object",
    "use_adjoint_scaling: TransformerNUFFT.image_from multiplies by adjoint_scaling when set (to undo the NUFFT adjoint's normalisation); TransformerDFT.image_from ignores the flag and has no docstring saying otherwise - its sum already is the exact conjugate-transpose operator - so for the DFT class the flag is required to be a no-op",
    "large sub-check: tolerance 1e-12 relative to the summed magnitudes (|phase| <= ~100 rad; observed error ~1e-14); cases are a fixed list, not seed-dependent, because one case costs 2-6 s of pure-Python kernel loops",
    "TransformerNUFFT, the w-tilde interferometer path and the PyLops linear-operator inversion are out of scope (external library / stubbed code)",
]
TECHNIQUE = ("property-based testing (Hypothesis) against a dense closed-form Fourier operator in numpy, with "
             "metamorphic relations (preload == direct, adjoint dot-product test, linearity), in-case sequences of "
             "transformers sharing everything but one attribute, and constructed exact-cancellation classes")

EPS = 1.0e-3  # no_regularization_add_to_curvature_diag_value, passed explicitly
FLOOR = 1.0e-280  # added to every tolerance scale: denormal inputs (products underflow) are compared absolutely
KEY_NATIVE = "preload-native-image"          # genuine defect: preload path rejects / mis-reads a native-stored image
KEY_NONPOS = "dft-matrix-nonpositive"        # genuine defect: transformed mapping matrix drops entries <= 0 (+ /preload, /direct)


# ---------------------------------------------------------------------------------------------
# strategies
# ---------------------------------------------------------------------------------------------
def _uv_component():
    mag = st.one_of(
        st.floats(2.0, 6.0).map(lambda e: 10.0 ** e),
        st.sampled_from([1.0e3, 5.0e4, 1.0e5, 2.5e5, 1.0e6]),
        st.integers(1, 1000).map(lambda k: k * 1000.0),
    )
    return st.tuples(mag, st.sampled_from([-1.0, 1.0])).map(lambda t: t[0] * t[1])


@st.composite
def baselines(draw, max_k=8):
    k = draw(st.integers(1, max_k))
    out = []
    for _ in range(k):
        kind = draw(st.sampled_from(["any", "any", "any", "any", "any", "zero", "repeat", "axis"]))
        if kind == "zero":
            out.append([0.0, 0.0])
        elif kind == "repeat" and out:
            out.append(list(out[draw(st.integers(0, len(out) - 1))]))
        elif kind == "axis":
            c = draw(_uv_component())
            out.append([c, 0.0] if draw(st.booleans()) else [0.0, c])
        else:
            out.append([draw(_uv_component()), draw(_uv_component())])
    return out


@st.composite
def geometry(draw, lo=1, hi=6, min_unmasked=1):
    mask = draw(gens.masks(lo=lo, hi=hi, min_unmasked=min_unmasked))
    return {"mask": mask, "pixel_scales": draw(gens.pixel_scales()), "origin": draw(gens.origins(mag=20.0)),
            "uv": draw(baselines())}


def _complex_list(draw, k, lo=-10.0, hi=10.0):
    vals = draw(st.lists(gens.reals(lo, hi), min_size=2 * k, max_size=2 * k))
    return [[vals[2 * i], vals[2 * i + 1]] for i in range(k)]


@st.composite
def transform_case(draw):
    c = draw(geometry())
    h, w = len(c["mask"]), len(c["mask"][0])
    c["image_native"] = draw(st.lists(gens.reals(-10, 10), min_size=h * w, max_size=h * w))
    c["vis"] = _complex_list(draw, len(c["uv"]))
    # keyword parameters of the public methods that the default call never sets: [preload path, direct path]
    c["adjoint_flag"] = [draw(st.sampled_from([None, False, True, True])) for _ in range(2)]
    return c


@st.composite
def matrix_case(draw):
    c = draw(geometry())
    n = sum(1 for r in c["mask"] for v in r if not v)
    cols = draw(st.integers(1, 4))
    kind = draw(st.sampled_from(["nonneg", "signed", "signed", "signed", "sparse-signed", "sparse-signed", "fractional", "tiny"]))
    if kind == "nonneg":
        vals = draw(st.lists(gens.reals(0, 3), min_size=n * cols, max_size=n * cols))
    elif kind == "fractional":
        vals = draw(st.lists(st.floats(0, 1), min_size=n * cols, max_size=n * cols))
    elif kind == "tiny":
        vals = draw(st.lists(st.sampled_from([0.0, 1e-4, 5e-4, -1e-4, 1e-6, 2e-3, 1.0]), min_size=n * cols, max_size=n * cols))
    else:
        vals = draw(st.lists(gens.reals(-3, 3), min_size=n * cols, max_size=n * cols))
        if kind == "sparse-signed":
            keep = draw(st.lists(st.booleans(), min_size=n * cols, max_size=n * cols))
            vals = [v if kp else 0.0 for v, kp in zip(vals, keep)]
    c["matrix"] = [vals[i * cols:(i + 1) * cols] for i in range(n)]
    c["matrix_kind"] = kind
    return c


@st.composite
def inversion_case(draw):
    c = draw(geometry(lo=2, hi=5, min_unmasked=2))
    c["uv"] = c["uv"][:6]
    k = len(c["uv"])
    n = sum(1 for r in c["mask"] for v in r if not v)
    c["vis"] = _complex_list(draw, k)
    nz = draw(st.lists(gens.positives(0.1, 5.0), min_size=2 * k, max_size=2 * k))
    c["noise"] = [[nz[2 * i], nz[2 * i + 1]] for i in range(k)]
    nobj = draw(st.integers(1, 2))
    c["objs"] = [draw(scene.obj_specs(n, kinds=("func", "func", "rect"), reg_types=("constant",), max_sub=2, max_mesh=4))
                 for _ in range(nobj)]
    c["route"] = draw(st.sampled_from(["direct", "factory", "interferometer"]))
    c["preload"] = True if c["route"] == "interferometer" else draw(st.booleans())
    return c


# ---------------------------------------------------------------------------------------------
# helpers
# ---------------------------------------------------------------------------------------------
def _setup(case, ctx):
    """Builds the mask, the reference grid / operator and classification labels."""
    m = np.asarray(case["mask"], dtype=bool)
    uv = np.asarray(case["uv"], dtype=float).reshape(-1, 2)
    mask = scene.build_mask(case)
    grid_ref = dft.centres_radians(m, case["pixel_scales"], case["origin"])
    a = dft.operator(grid_ref, uv)
    for l in gens.mask_stats(m):
        ctx.label(l)
    nonzero = {(float(u), float(v)) for u, v in uv if (u != 0.0 or v != 0.0)}
    ctx.label("uv:k=%d" % len(uv) if len(uv) <= 2 else "uv:k>=3")
    if len({(float(u), float(v)) for u, v in uv}) < len(uv):
        ctx.label("uv:has-repeat")
    if any(u == 0.0 and v == 0.0 for u, v in uv):
        ctx.label("uv:has-zero")
    if any((u == 0.0) != (v == 0.0) for u, v in uv):
        ctx.label("uv:single-axis")
    ctx.label("uv:distinct-nonzero>=2" if len(nonzero) >= 2 else "uv:distinct-nonzero<2")
    ctx.label("scales:aniso" if case["pixel_scales"][0] != case["pixel_scales"][1] else "scales:iso")
    ctx.label("origin:zero" if case["origin"] == [0.0, 0.0] else "origin:nonzero")
    nt = len(nonzero) >= 2 and bool(m.any()) and bool((~m).any())
    return m, uv, mask, grid_ref, a, nt


def _util(ctx, module, name, **kwargs):
    """Direct call of an internal kernel by keyword.  Internal kernels may be refactored freely: if the function is
    gone or the call cannot be bound to its current signature (TypeError at the call boundary), the case is labelled
    `util-signature-changed` and (False, None) is returned so the caller skips that comparison - the public-API
    comparisons decide the property.  Anything raised INSIDE the kernel propagates as usual."""
    fn = getattr(module, name, None) if module is not None else None
    if fn is None:
        ctx.label("util-signature-changed", "util-signature-changed:%s(missing)" % name)
        return False, None
    try:
        inspect.signature(fn).bind(**kwargs)
    except TypeError:
        ctx.label("util-signature-changed", "util-signature-changed:%s" % name)
        return False, None
    except ValueError:  # signature not introspectable: fall through to the call
        pass
    try:
        return True, fn(**kwargs)
    except TypeError as e:
        tb = e.__traceback__
        if tb is not None and tb.tb_next is None:  # raised by the call itself, no frame of the kernel was entered
            ctx.label("util-signature-changed", "util-signature-changed:%s" % name)
            return False, None
        raise


def _util_close(ctx, module, name, want, key, atol, what, **kwargs):
    ok, got = _util(ctx, module, name, **kwargs)
    if ok:
        ctx.close(got, want, key, atol=atol, what=what)


def _util_module(ctx, path):
    try:
        return importlib.import_module(path)
    except ImportError:
        ctx.label("util-signature-changed", "util-signature-changed:%s(module missing)" % path)
        return None


def _transformer(ctx, aa, uv, mask, preload):
    path = "preload" if preload else "direct"
    t = ctx.impl("construct/%s" % path, aa.TransformerDFT, uv_wavelengths=uv.copy(), real_space_mask=mask,
                 preload_transform=preload)
    return t, path


def _check_grid(ctx, t, grid_ref, pixel_scales):
    # absolute part: 1e-12 of (largest |coordinate| + one pixel), so a centre that is analytically ~0 (origin
    # cancelling the half-extent, denormal origins) is compared on the scale of the frame, not of itself
    scale = float(np.abs(grid_ref).max(initial=0.0)) + max(pixel_scales) * dft.ARCSEC_TO_RAD
    ctx.close(np.asarray(t.grid), grid_ref, "grid/in_radians", rtol=1e-12, atol=1e-12 * scale,
              what="transformer grid vs closed-form centres in radians")


# ---------------------------------------------------------------------------------------------
# sub-check 1: forward transform, preload equivalence, adjoint
# ---------------------------------------------------------------------------------------------
def body_transform(case, ctx):
    import autoarray as aa
    m, uv, mask, grid_ref, a, nt = _setup(case, ctx)
    ctx.nt(nt)
    h, w = m.shape
    native_vals = np.asarray(case["image_native"], dtype=float).reshape(h, w)
    img = native_vals[~m]
    ctx.label("image:has-negative" if (img < 0).any() else "image:no-negative")
    vis = np.asarray([complex(r, i) for r, i in case["vis"]], dtype=complex)
    want_vis = a @ img
    s_img = float(np.abs(img).sum()) + FLOOR
    s_vis = float((np.abs(vis.real) + np.abs(vis.imag)).sum()) + FLOOR
    want_img = dft.adjoint_real(a, vis)
    want_img_native = dft.native_from_slim(m, want_img)

    got = {}
    for preload in (True, False):
        t, path = _transformer(ctx, aa, uv, mask, preload)
        _check_grid(ctx, t, grid_ref, case["pixel_scales"])
        # forward, slim-stored image
        image_slim = aa.Array2D(values=img.copy(), mask=mask)
        v = np.asarray(t.visibilities_from(image=image_slim))
        ctx.check(np.iscomplexobj(v), "visibilities_from/%s/dtype" % path, "visibilities are not complex")
        ctx.close(v, want_vis, "visibilities_from/%s/slim-stored" % path, atol=1e-9 * s_img,
                  what="visibilities_from(slim-stored image) vs A I")
        got[path] = v
        # forward, native-stored image (the same image in its other storage form, C01)
        image_native = aa.Array2D(values=native_vals.copy(), mask=mask, store_native=True)
        if preload:
            try:
                vn = np.asarray(t.visibilities_from(image=image_native))
            except Exception as e:  # single repository call; the direct path accepts the same input
                vn = None
                ctx.fail(KEY_NATIVE, "visibilities_from(native-stored image) with preload_transform=True raises %s: %s "
                                     "(the direct path accepts it)" % (type(e).__name__, str(e)[:200]))
            if vn is not None:
                ctx.close(vn, want_vis, KEY_NATIVE, atol=1e-9 * s_img,
                          what="visibilities_from(native-stored image), preload path, vs A I")
        else:
            vn = np.asarray(t.visibilities_from(image=image_native))
            ctx.close(vn, want_vis, "visibilities_from/direct/native-stored", atol=1e-9 * s_img,
                      what="visibilities_from(native-stored image) vs A I")
        # adjoint
        vobj = aa.Visibilities(visibilities=vis.copy())
        flag = case.get("adjoint_flag", [None, None])[0 if preload else 1]
        ctx.label("adjoint-flag:%s" % flag)
        im = t.image_from(visibilities=vobj, **({} if flag is None else {"use_adjoint_scaling": bool(flag)}))
        ctx.check(isinstance(im, aa.Array2D), "image_from/type", "image_from does not return an Array2D")
        ctx.close(np.asarray(im.slim), want_img, "image_from/slim", atol=1e-9 * s_vis,
                  what="image_from(V).slim vs Re(A^H V) (%s)" % path)
        ctx.close(np.asarray(im.native), want_img_native, "image_from/native", atol=1e-9 * s_vis,
                  what="image_from(V).native vs Re(A^H V) placed on the mask (%s)" % path)
        ctx.check(np.array_equal(np.asarray(im.mask), m), "image_from/mask", "image_from result carries a different mask")
        # the same complex values in other memory representations (byte order as read from FITS, a strided view)
        kbig = np.zeros(2 * len(vis), dtype=complex); kbig[::2] = vis
        for rname, vrep in (("big-endian", vis.astype(">c16")), ("strided-view", kbig[::2]), ("little-endian-explicit", vis.astype("<c16"))):
            vo = aa.Visibilities(visibilities=vrep)
            ctx.close(np.asarray(vo.in_array, dtype=float), np.stack([vis.real, vis.imag], axis=-1), "visibilities/in_array/representation", atol=0.0,
                      what="Visibilities(%s complex array).in_array vs (real, imag) columns" % rname)
            imr = t.image_from(visibilities=vo, **({} if flag is None else {"use_adjoint_scaling": bool(flag)}))
            ctx.close(np.asarray(imr.slim), want_img, "image_from/representation", atol=1e-9 * s_vis,
                      what="image_from(%s visibilities).slim vs Re(A^H V) (%s)" % (rname, path))
        # dot-product test, no reference operator involved: Re<A I, V> == <I, Re(A^H V)>
        lhs = float(np.real(np.vdot(vis, v)))
        rhs = float(np.dot(img, np.asarray(im.slim, dtype=float))) if np.asarray(im.slim).shape == img.shape else np.nan
        ctx.close(lhs, rhs, "adjoint/dot-product", atol=1e-9 * s_img * s_vis,
                  what="Re<A I, V> vs <I, image_from(V)> (%s)" % path)
    if got["preload"].shape == got["direct"].shape:
        ctx.close(got["preload"], got["direct"], "visibilities_from/preload-vs-direct", atol=1e-12 * s_img,
                  what="visibilities with vs without preloaded tables")

    # util functions called directly with the reference grid (independent of Mask2D / Grid2D code)
    tu = _util_module(ctx, "autoarray.operators.transformer_util")
    phase = 2.0 * np.pi * (np.outer(grid_ref[:, 1], uv[:, 0]) + np.outer(grid_ref[:, 0], uv[:, 1]))  # (N, K)
    _util_close(ctx, tu, "preload_real_transforms", np.cos(phase), "util/preload_real_transforms", 1e-9,
                "cosine table vs cos(2 pi (x u + y v))", grid_radians=grid_ref.copy(), uv_wavelengths=uv.copy())
    _util_close(ctx, tu, "preload_imag_transforms", -np.sin(phase), "util/preload_imag_transforms", 1e-9,
                "sine table vs -sin(2 pi (x u + y v))", grid_radians=grid_ref.copy(), uv_wavelengths=uv.copy())
    _util_close(ctx, tu, "visibilities_jit", want_vis, "util/visibilities_jit", 1e-9 * s_img, "visibilities_jit vs A I",
                image_1d=img.copy(), grid_radians=grid_ref.copy(), uv_wavelengths=uv.copy())
    _util_close(ctx, tu, "visibilities_via_preload_jit_from", want_vis, "util/visibilities_via_preload_jit_from", 1e-9 * s_img,
                "preload sum (reference tables) vs A I", image_1d=img.copy(), preloaded_reals=np.cos(phase),
                preloaded_imags=-np.sin(phase))
    _util_close(ctx, tu, "image_via_jit_from", want_img, "util/image_via_jit_from", 1e-9 * s_vis, "image_via_jit_from vs Re(A^H V)",
                n_pixels=len(img), grid_radians=grid_ref.copy(), uv_wavelengths=uv.copy(),
                visibilities=np.stack([vis.real, vis.imag], axis=-1))


# ---------------------------------------------------------------------------------------------
# sub-check 2: transformed mapping matrix
# ---------------------------------------------------------------------------------------------
def _matrix_transform_check(ctx, fn, mm, want, tol, general_key, path, what):
    """fn(M) must equal `want` = A M.  The operator is first exercised through linearity on the two non-negative
    matrices M+ = max(M,0), M- = max(-M,0): T(M+) - T(M-) == A M (key `general_key`).  A mismatch of T(M) itself on a
    matrix with negative entries while that relation holds is the 'entries <= 0 are dropped' class (KEY_NONPOS/<path>);
    any other mismatch is keyed `general_key`."""
    has_neg = bool((mm < 0).any())
    plus, minus = np.where(mm > 0, mm, 0.0), np.where(mm < 0, -mm, 0.0)
    gp, gm = np.asarray(fn(plus.copy())), np.asarray(fn(minus.copy()))
    lin = gp - gm if gp.shape == gm.shape else None
    lin_ok = lin is not None and lin.shape == want.shape and bool(np.all(np.abs(lin - want) <= 2 * tol))
    ctx.close(lin, want, general_key, atol=2 * tol, what="T(max(M,0)) - T(max(-M,0)) vs A M; " + what)
    g = np.asarray(fn(mm.copy()))
    key = "%s/%s" % (KEY_NONPOS, path) if (has_neg and lin_ok) else general_key
    ctx.close(g, want, key, atol=tol, what="T(M) vs A M (matrix %s negative entries); %s" % ("with" if has_neg else "without", what))
    return g


def body_matrix(case, ctx):
    import autoarray as aa
    m, uv, mask, grid_ref, a, nt = _setup(case, ctx)
    mm = np.asarray(case["matrix"], dtype=float)
    has_neg = bool((mm < 0).any())
    ctx.label("matrix:%s" % case.get("matrix_kind", "?"))
    ctx.label("matrix:has-negative" if has_neg else "matrix:no-negative")
    ctx.nt(nt and has_neg)
    want = a @ mm
    tol = 1e-9 * (float(np.abs(mm).sum(axis=0).max(initial=0.0)) + FLOOR)
    tu = _util_module(ctx, "autoarray.operators.transformer_util")
    phase = 2.0 * np.pi * (np.outer(grid_ref[:, 1], uv[:, 0]) + np.outer(grid_ref[:, 0], uv[:, 1]))
    got = {}
    for preload in (True, False):
        t, path = _transformer(ctx, aa, uv, mask, preload)
        _check_grid(ctx, t, grid_ref, case["pixel_scales"])
        got[path] = _matrix_transform_check(ctx, lambda x: t.transform_mapping_matrix(mapping_matrix=x), mm, want, tol,
                                            "transform_mapping_matrix/%s/values" % path, path,
                                            "TransformerDFT.transform_mapping_matrix, %s" % path)
    if not has_neg and got["preload"].shape == got["direct"].shape:
        ctx.close(got["preload"], got["direct"], "transform_mapping_matrix/preload-vs-direct", atol=1e-3 * tol,
                  what="transformed mapping matrix with vs without preloaded tables")
    # util functions directly with the reference grid / reference tables
    kw_d = dict(grid_radians=grid_ref.copy(), uv_wavelengths=uv.copy())
    kw_p = dict(preloaded_reals=np.cos(phase), preloaded_imags=-np.sin(phase))
    if _util(ctx, tu, "transformed_mapping_matrix_jit", mapping_matrix=mm.copy(), **kw_d)[0]:
        _matrix_transform_check(ctx, lambda x: tu.transformed_mapping_matrix_jit(mapping_matrix=x, **kw_d), mm, want, tol,
                                "util/transformed_mapping_matrix_jit", "direct", "util.transformer.transformed_mapping_matrix_jit")
    if _util(ctx, tu, "transformed_mapping_matrix_via_preload_jit_from", mapping_matrix=mm.copy(), **kw_p)[0]:
        _matrix_transform_check(ctx, lambda x: tu.transformed_mapping_matrix_via_preload_jit_from(mapping_matrix=x, **kw_p),
                                mm, want, tol, "util/transformed_mapping_matrix_via_preload_jit_from", "preload",
                                "util.transformer.transformed_mapping_matrix_via_preload_jit_from (reference tables)")


# ---------------------------------------------------------------------------------------------
# sub-check 3: interferometer mapping-formalism normal equations
# ---------------------------------------------------------------------------------------------
def _settings(aa):
    return aa.SettingsInversion(use_w_tilde=False, use_positive_only_solver=False, use_linear_operators=False,
                                no_regularization_add_to_curvature_diag_value=EPS, force_edge_pixels_to_zeros=False)


def body_inversion(case, ctx):
    import autoarray as aa
    from autoarray.inversion.inversion.interferometer.mapping import InversionInterferometerMapping
    m, uv, mask, grid_ref, a, nt = _setup(case, ctx)
    ctx.nt(nt)
    route, preload = case["route"], bool(case["preload"])
    path = "preload" if preload else "direct"
    ctx.label("route:%s" % route, "path:%s" % path)
    types = [o["type"] for o in case["objs"]]
    ctx.label("objs:%d" % len(types))
    for o in case["objs"]:
        ctx.label("obj:%s" % o["type"], "reg:none" if o.get("reg") is None else "reg:%s" % o["reg"]["type"])
    vis = np.asarray([complex(r, i) for r, i in case["vis"]], dtype=complex)
    noise = np.asarray([complex(r, i) for r, i in case["noise"]], dtype=complex)
    objs = [scene.build_linear_obj(spec, mask)[0] for spec in case["objs"]]
    mats = [np.asarray(o.mapping_matrix, dtype=float) for o in objs]
    mm = np.hstack(mats)
    has_neg = bool((mm < 0).any())
    ctx.label("matrix:has-negative" if has_neg else "matrix:no-negative")
    noreg, start = [], 0
    for o, mat in zip(objs, mats):
        if o.regularization is None:
            noreg.extend(range(start, start + mat.shape[1]))
        start += mat.shape[1]
    ctx.label("noreg:%s" % ("none" if not noreg else ("one" if len(noreg) == 1 else "several")))

    data = aa.Visibilities(visibilities=vis.copy())
    nmap = aa.VisibilitiesNoiseMap(visibilities=noise.copy())
    if route == "interferometer":
        ds = aa.Interferometer(data=data, noise_map=nmap, uv_wavelengths=uv.copy(), real_space_mask=mask,
                               transformer_class=aa.TransformerDFT)
        inv = aa.Inversion(dataset=ds, linear_obj_list=objs, settings=_settings(aa))
    else:
        t, _ = _transformer(ctx, aa, uv, mask, preload)
        ds = aa.DatasetInterface(data=data, noise_map=nmap, transformer=t)
        if route == "direct":
            inv = InversionInterferometerMapping(dataset=ds, linear_obj_list=objs, settings=_settings(aa))
        else:
            inv = aa.Inversion(dataset=ds, linear_obj_list=objs, settings=_settings(aa))
    ctx.check(type(inv).__name__ == "InversionInterferometerMapping", "inversion/factory-class",
              "expected InversionInterferometerMapping, got %s" % type(inv).__name__)

    t_ref = a @ mm
    t_got = np.asarray(inv.operated_mapping_matrix)
    tol_t = 1e-9 * (float(np.abs(mm).sum(axis=0).max(initial=0.0)) + FLOOR)
    transform_ok = t_got.shape == t_ref.shape and bool(np.all(np.abs(t_got - t_ref) <= tol_t))
    # same classification as in the matrix sub-check: the dataset's transformer through linearity on M+ and M-
    tr = inv.transformer
    lin = np.asarray(tr.transform_mapping_matrix(mapping_matrix=np.where(mm > 0, mm, 0.0))) - \
        np.asarray(tr.transform_mapping_matrix(mapping_matrix=np.where(mm < 0, -mm, 0.0)))
    lin_ok = lin.shape == t_ref.shape and bool(np.all(np.abs(lin - t_ref) <= 2 * tol_t))
    ctx.close(lin, t_ref, "inversion/transformer/%s" % path, atol=2 * tol_t, what="dataset transformer: T(M+) - T(M-) vs A M")
    ctx.close(t_got, t_ref, "%s/%s" % (KEY_NONPOS, path) if (has_neg and lin_ok) else "inversion/operated_mapping_matrix",
              atol=tol_t, what="operated_mapping_matrix vs A hstack(M) (%s)" % path)
    d_got = np.array(inv.data_vector, dtype=float)
    f_got = np.array(inv.curvature_matrix, dtype=float)
    # (1) the statement as written: Gram products of the transformed mapping matrix the inversion holds
    if t_got.shape == t_ref.shape:
        d1, f1, sd, sf = dft.normal_equations(t_got, vis, noise, noreg=noreg, eps=EPS)
        ctx.close(d_got, d1, "inversion/data_vector", atol=1e-9 * (sd + FLOOR),
                  what="data_vector vs sum Re V Re T / sr^2 + Im V Im T / si^2 (T = inversion's transformed matrix)")
        ctx.close(f_got, f1, "inversion/curvature_matrix", atol=1e-9 * (sf + FLOOR),
                  what="curvature_matrix vs Tr^T Wr Tr + Ti^T Wi Ti + eps on unregularized (T = inversion's transformed matrix)")
        if f_got.shape == f1.shape:
            ctx.close(f_got, f_got.T, "inversion/curvature_symmetry", atol=1e-12 * (sf + FLOOR), what="curvature_matrix symmetry")
    # (2) end to end against the independent operator
    if transform_ok:
        d2, f2, sd, sf = dft.normal_equations(t_ref, vis, noise, noreg=noreg, eps=EPS, t_abs=np.abs(a) @ np.abs(mm))
        ctx.close(d_got, d2, "inversion/data_vector/end-to-end", atol=1e-8 * (sd + FLOOR), what="data_vector vs Gram products of A M")
        ctx.close(f_got, f2, "inversion/curvature_matrix/end-to-end", atol=1e-8 * (sf + FLOOR), what="curvature_matrix vs Gram products of A M")
    else:
        ctx.label("end-to-end-skipped:transform-mismatch")


# ---------------------------------------------------------------------------------------------
# sub-check 4: several transformers built one after the other in one process (one case)
# ---------------------------------------------------------------------------------------------
@st.composite
def family_case(draw):
    """2-4 transformer configurations sharing frame shape, pixel scales, origin, baselines and the NUMBER of unmasked
    pixels; a member differs from the base in exactly one thing: which pixels are unmasked ('layout'), the origin, the
    pixel scales, one baseline, or nothing ('same')."""
    h = draw(st.integers(1, 5))
    w = draw(st.integers(2 if h == 1 else 1, 5))
    cells = h * w
    n = draw(st.integers(1, cells - 1))
    base_cells = sorted(draw(st.lists(st.integers(0, cells - 1), min_size=n, max_size=n, unique=True)))
    scales = draw(gens.pixel_scales())
    origin = draw(gens.origins(mag=20.0))
    uv = draw(baselines(max_k=5))
    members = [{"kind": "base", "cells": base_cells, "pixel_scales": scales, "origin": origin, "uv": uv}]

    def move_one(cur):
        comp = [c for c in range(cells) if c not in cur]
        out = list(cur)
        out[draw(st.integers(0, len(out) - 1))] = comp[draw(st.integers(0, len(comp) - 1))]
        return sorted(out)

    for _ in range(draw(st.integers(1, 3))):
        kind = draw(st.sampled_from(["layout", "layout", "layout", "layout", "origin", "scales", "baseline", "same"]))
        mem = {"kind": kind, "cells": list(base_cells), "pixel_scales": list(scales), "origin": list(origin),
               "uv": [list(b) for b in uv]}
        if kind == "layout":
            how = draw(st.sampled_from(["move-one", "mirror", "shift", "fresh"]))
            if how == "mirror":
                new = sorted((h - 1 - c // w) * w + (w - 1 - c % w) for c in base_cells)
            elif how == "shift":
                new = sorted(((c // w) * w + (c % w + 1) % w) for c in base_cells)
            elif how == "fresh":
                new = sorted(draw(st.lists(st.integers(0, cells - 1), min_size=n, max_size=n, unique=True)))
            else:
                new = move_one(base_cells)
            if new == base_cells or any(new == m_["cells"] and m_["kind"] in ("base", "layout") for m_ in members):
                new = move_one(new)
            mem["cells"] = new
            mem["how"] = how
        elif kind == "origin":
            o = draw(gens.origins(mag=20.0))
            mem["origin"] = o if o != origin else [origin[0] + 0.5, origin[1]]
        elif kind == "scales":
            s = draw(gens.pixel_scales())
            mem["pixel_scales"] = s if s != scales else [scales[0] * 2.0, scales[1]]
        elif kind == "baseline":
            i = draw(st.integers(0, len(uv) - 1))
            b = [draw(_uv_component()), draw(_uv_component())]
            mem["uv"][i] = b if b != uv[i] else [b[0] * 2.0, b[1]]
        members.append(mem)
    cols = draw(st.integers(1, 3))
    mat = draw(st.lists(gens.reals(-3, 3), min_size=n * cols, max_size=n * cols))
    return {"shape": [h, w], "members": members,
            "image": draw(st.lists(gens.reals(-10, 10), min_size=n, max_size=n)),
            "matrix": [mat[i * cols:(i + 1) * cols] for i in range(n)],
            "vis": _complex_list(draw, len(uv)),
            "preload_first": draw(st.booleans()),
            "via_dataset": draw(st.lists(st.booleans(), min_size=len(members), max_size=len(members)))}


def body_family(case, ctx):
    import autoarray as aa
    h, w = case["shape"]
    img = np.asarray(case["image"], dtype=float)
    mm = np.asarray(case["matrix"], dtype=float)
    vis = np.asarray([complex(r, i) for r, i in case["vis"]], dtype=complex)
    s_img = float(np.abs(img).sum()) + FLOOR
    s_vis = float((np.abs(vis.real) + np.abs(vis.imag)).sum()) + FLOOR
    tol_m = 1e-9 * (float(np.abs(mm).sum(axis=0).max(initial=0.0)) + FLOOR)
    ctx.label("members:%d" % len(case["members"]))
    order = (True, False) if case["preload_first"] else (False, True)
    built = []
    # phase 1: construct every transformer, one after the other, before any of them is used
    specs = list(zip(case["members"], case["via_dataset"])) + [(dict(case["members"][0], kind="base-rebuilt"), False)]
    kinds = set()
    for mem, via_ds in specs:
        kinds.add(mem["kind"])
        m = np.ones((h, w), dtype=bool)
        m.ravel()[np.asarray(mem["cells"], dtype=int)] = False
        mask = aa.Mask2D(mask=m.copy(), pixel_scales=tuple(mem["pixel_scales"]), origin=tuple(mem["origin"]))
        uv = np.asarray(mem["uv"], dtype=float).reshape(-1, 2)
        grid_ref = dft.centres_radians(m, mem["pixel_scales"], mem["origin"])
        a = dft.operator(grid_ref, uv)
        for preload in order:
            path = "preload" if preload else "direct"
            if via_ds and preload:
                # the dataset class builds its own transformer (class default preload_transform=True)
                ds = aa.Interferometer(data=aa.Visibilities(visibilities=vis.copy()),
                                       noise_map=aa.VisibilitiesNoiseMap(visibilities=np.full(len(vis), 1.0 + 1.0j)),
                                       uv_wavelengths=uv.copy(), real_space_mask=mask, transformer_class=aa.TransformerDFT)
                t = ds.transformer
                ctx.label("built:via-dataset")
            else:
                t = aa.TransformerDFT(uv_wavelengths=uv.copy(), real_space_mask=mask, preload_transform=preload)
            built.append((mem, path, mask, m, grid_ref, a, t))
    for k in kinds:
        ctx.label("member:%s" % k)
    n_layouts = len({tuple(mem["cells"]) for mem in case["members"]})
    nonzero = any(u != 0.0 or v != 0.0 for u, v in case["members"][0]["uv"])
    ctx.label("layouts:%d" % n_layouts)
    ctx.nt(n_layouts >= 2 and nonzero)
    # phase 2: every transformer against the dense operator of ITS OWN configuration
    for mem, path, mask, m, grid_ref, a, t in built:
        kind = mem["kind"]
        scale = float(np.abs(grid_ref).max(initial=0.0)) + max(mem["pixel_scales"]) * dft.ARCSEC_TO_RAD
        ctx.close(np.asarray(t.grid), grid_ref, "family/%s/grid" % kind, rtol=1e-12, atol=1e-12 * scale,
                  what="transformer grid vs closed form (member %s, %s)" % (kind, path))
        v = np.asarray(t.visibilities_from(image=aa.Array2D(values=img.copy(), mask=mask)))
        ctx.close(v, a @ img, "family/%s/%s/visibilities_from" % (kind, path), atol=1e-9 * s_img,
                  what="visibilities_from vs A I of this member's own mask / origin / scales / baselines")
        g = np.asarray(t.transform_mapping_matrix(mapping_matrix=mm.copy()))
        ctx.close(g, a @ mm, "family/%s/%s/transform_mapping_matrix" % (kind, path), atol=tol_m,
                  what="transform_mapping_matrix vs A M of this member's own configuration")
        im = t.image_from(visibilities=aa.Visibilities(visibilities=vis.copy()))
        ctx.close(np.asarray(im.native), dft.native_from_slim(m, dft.adjoint_real(a, vis)), "family/%s/image_from" % kind,
                  atol=1e-9 * s_vis, what="image_from vs Re(A^H V) on this member's own mask (%s)" % path)


# ---------------------------------------------------------------------------------------------
# sub-check 5: exact cancellations (entries whose real or imaginary part is exactly zero)
# ---------------------------------------------------------------------------------------------
COL_KINDS = ["antisym-pair", "antisym", "sym-pair", "sym", "zero-sum", "zero", "generic"]


def _exact_value():
    """Non-zero values whose sums / negations are exact: eighths and small integers."""
    return st.one_of(st.integers(1, 24).map(lambda k: k / 8.0), st.integers(1, 5).map(float)).flatmap(
        lambda v: st.sampled_from([v, -v]))


@st.composite
def cancel_case(draw):
    """Masks symmetric under a mirror map (point reflection about the mask origin, or a flip of one axis) with the
    origin zero on the negated axes, so mirrored pixels have exactly negated coordinates; baselines compatible with
    the mirror (point: any; x-flip: v = 0; y-flip: u = 0) so mirrored phases are exactly negated; matrix columns that
    are exactly antisymmetric / symmetric under the mirror, sum exactly to zero, are zero, or generic."""
    mirror = draw(st.sampled_from(["point", "point", "x-flip", "y-flip"]))
    h = draw(st.integers(2 if mirror == "y-flip" else 1, 5))
    w = draw(st.integers(2 if (mirror == "x-flip" or h == 1) else 1, 5))

    def image_of(c):
        i, j = c // w, c % w
        if mirror in ("point", "y-flip"):
            i = h - 1 - i
        if mirror in ("point", "x-flip"):
            j = w - 1 - j
        return i * w + j

    orbits = sorted({tuple(sorted((c, image_of(c)))) for c in range(h * w)})
    pairs = [o for o in orbits if o[0] != o[1]]
    keep = draw(st.lists(st.booleans(), min_size=len(orbits), max_size=len(orbits)))
    chosen = [o for o, k in zip(orbits, keep) if k]
    if not any(o[0] != o[1] for o in chosen):
        chosen.append(pairs[draw(st.integers(0, len(pairs) - 1))])
    chosen = sorted(set(chosen))
    cells = sorted({c for o in chosen for c in o})
    slim = {c: s for s, c in enumerate(cells)}
    n = len(cells)
    mask = [[(i * w + j) not in slim for j in range(w)] for i in range(h)]
    exact_origin = draw(st.integers(0, 4)) > 0
    oy = 0.0 if (exact_origin and mirror in ("point", "y-flip")) else draw(gens.reals(-5, 5))
    ox = 0.0 if (exact_origin and mirror in ("point", "x-flip")) else draw(gens.reals(-5, 5))
    uv = []
    for _ in range(draw(st.integers(1, 5))):
        kind = draw(st.sampled_from(["compatible", "compatible", "compatible", "compatible", "zero", "generic"]))
        if kind == "zero":
            uv.append([0.0, 0.0])
        elif kind == "generic" or mirror == "point":
            axis = draw(st.sampled_from(["both", "both", "u", "v"])) if mirror == "point" else "both"
            b = [draw(_uv_component()), draw(_uv_component())]
            uv.append([b[0], 0.0] if axis == "u" else ([0.0, b[1]] if axis == "v" else b))
        elif mirror == "x-flip":
            uv.append([draw(_uv_component()), 0.0])
        else:
            uv.append([0.0, draw(_uv_component())])
    pair_orbits = [o for o in chosen if o[0] != o[1]]
    cols = draw(st.integers(2, 4))
    col_kinds, columns = [], []
    for j in range(cols):
        kind = draw(st.sampled_from(["antisym-pair", "antisym"])) if j == 0 else (
            draw(st.sampled_from(["sym-pair", "sym"])) if j == 1 else draw(st.sampled_from(COL_KINDS)))
        col = [0.0] * n
        if kind in ("antisym", "sym", "antisym-pair", "sym-pair"):
            orbs = chosen if kind in ("antisym", "sym") else [pair_orbits[draw(st.integers(0, len(pair_orbits) - 1))]]
            for o in orbs:
                a_ = draw(_exact_value())
                if o[0] == o[1]:
                    col[slim[o[0]]] = a_ if kind.startswith("sym") else 0.0
                else:
                    col[slim[o[0]]] = a_
                    col[slim[o[1]]] = a_ if kind.startswith("sym") else -a_
        elif kind == "zero-sum":
            vals = [draw(_exact_value()) for _ in range(n - 1)]
            col = vals + [-sum(vals)]
        elif kind == "generic":
            col = draw(st.lists(gens.reals(-3, 3), min_size=n, max_size=n))
        col_kinds.append(kind)
        columns.append(col)
    k = len(uv)
    vis = []
    for _ in range(k):
        vk = draw(st.sampled_from(["both", "both", "both", "re0", "re0", "im0", "im0", "zero"]))
        re, im = draw(_exact_value()), draw(_exact_value())
        vis.append([0.0 if vk in ("re0", "zero") else re, 0.0 if vk in ("im0", "zero") else im])
    nz = draw(st.lists(gens.positives(0.1, 5.0), min_size=2 * k, max_size=2 * k))
    split = draw(st.integers(1, cols - 1)) if draw(st.booleans()) else cols
    return {"mirror": mirror, "mask": mask, "pixel_scales": draw(gens.pixel_scales()), "origin": [oy, ox], "uv": uv,
            "matrix": [[columns[j][p] for j in range(cols)] for p in range(n)], "col_kinds": col_kinds,
            "vis": vis, "noise": [[nz[2 * i], nz[2 * i + 1]] for i in range(k)],
            "preload": draw(st.booleans()), "split": split}


def _zero_pattern_labels(ctx, t, tag):
    t = np.asarray(t)
    re0 = bool(((t.real == 0) & (t.imag != 0)).any())
    im0 = bool(((t.imag == 0) & (t.real != 0)).any())
    ctx.label("%s:has-Re==0!=Im" % tag if re0 else "%s:no-Re==0!=Im" % tag)
    ctx.label("%s:has-Im==0!=Re" % tag if im0 else "%s:no-Im==0!=Re" % tag)
    if bool(((t.real == 0) & (t.imag == 0)).any()):
        ctx.label("%s:has-exact-0+0j" % tag)
    return re0, im0


def body_cancel(case, ctx):
    import autoarray as aa
    from autoarray.inversion.inversion.interferometer.mapping import InversionInterferometerMapping
    iiu = _util_module(ctx, "autoarray.inversion.inversion.interferometer.inversion_interferometer_util")
    m, uv, mask, grid_ref, a, _ = _setup(case, ctx)
    ctx.label("mirror:%s" % case["mirror"])
    for ck in set(case["col_kinds"]):
        ctx.label("col:%s" % ck)
    mm = np.asarray(case["matrix"], dtype=float)
    n, cols = mm.shape
    vis = np.asarray([complex(r, i) for r, i in case["vis"]], dtype=complex)
    noise = np.asarray([complex(r, i) for r, i in case["noise"]], dtype=complex)
    if ((vis.real == 0) & (vis.imag != 0)).any():
        ctx.label("vis:has-Re==0!=Im")
    if ((vis.imag == 0) & (vis.real != 0)).any():
        ctx.label("vis:has-Im==0!=Re")
    want = a @ mm
    tol = 1e-9 * (float(np.abs(mm).sum(axis=0).max(initial=0.0)) + FLOOR)
    s_vis = float((np.abs(vis.real) + np.abs(vis.imag)).sum()) + FLOOR
    want_img = dft.adjoint_real(a, vis)
    tu = _util_module(ctx, "autoarray.operators.transformer_util")
    phase = 2.0 * np.pi * (np.outer(grid_ref[:, 1], uv[:, 0]) + np.outer(grid_ref[:, 0], uv[:, 1]))

    # (a) transformer outputs, both paths
    natural = None
    for preload in (True, False):
        t, path = _transformer(ctx, aa, uv, mask, preload)
        g = np.asarray(t.transform_mapping_matrix(mapping_matrix=mm.copy()))
        ctx.close(g, want, "cancel/transform_mapping_matrix/%s" % path, atol=tol,
                  what="transform_mapping_matrix vs A M (columns %s)" % ",".join(case["col_kinds"]))
        if preload == bool(case["preload"]):
            natural = g
        for j in range(cols):
            v = np.asarray(t.visibilities_from(image=aa.Array2D(values=mm[:, j].copy(), mask=mask)))
            ctx.close(v, want[:, j], "cancel/visibilities_from/%s" % path, atol=tol,
                      what="visibilities_from(column %d as image, %s) vs A I" % (j, case["col_kinds"][j]))
        im = t.image_from(visibilities=aa.Visibilities(visibilities=vis.copy()))
        ctx.close(np.asarray(im.slim), want_img, "cancel/image_from", atol=1e-9 * s_vis,
                  what="image_from(V) vs Re(A^H V), visibilities with exactly zero real / imaginary parts (%s)" % path)
    re0, im0 = _zero_pattern_labels(ctx, natural, "T")
    # (b) util kernels with the reference grid / tables
    _util_close(ctx, tu, "transformed_mapping_matrix_jit", want, "cancel/util/transformed_mapping_matrix_jit", tol,
                "transformed_mapping_matrix_jit vs A M", mapping_matrix=mm.copy(), grid_radians=grid_ref.copy(), uv_wavelengths=uv.copy())
    _util_close(ctx, tu, "transformed_mapping_matrix_via_preload_jit_from", want,
                "cancel/util/transformed_mapping_matrix_via_preload_jit_from", tol, "preload kernel vs A M",
                mapping_matrix=mm.copy(), preloaded_reals=np.cos(phase), preloaded_imags=-np.sin(phase))
    _util_close(ctx, tu, "image_via_jit_from", want_img, "cancel/util/image_via_jit_from", 1e-9 * s_vis,
                "image_via_jit_from vs Re(A^H V)", n_pixels=n, grid_radians=grid_ref.copy(), uv_wavelengths=uv.copy(),
                visibilities=np.stack([vis.real, vis.imag], axis=-1))

    # (c) a transformed matrix with the parities imposed exactly (a valid complex matrix in its own right): antisymmetric
    # columns purely imaginary, symmetric columns purely real, zero columns 0+0j
    t_forced = want.copy()
    for j, ck in enumerate(case["col_kinds"]):
        if ck.startswith("antisym"):
            t_forced[:, j] = 1j * t_forced[:, j].imag
        elif ck.startswith("sym"):
            t_forced[:, j] = t_forced[:, j].real + 0j
        elif ck == "zero":
            t_forced[:, j] = 0.0
    f_re0, f_im0 = _zero_pattern_labels(ctx, t_forced, "Tforced")
    nonzero_b = any(u != 0.0 or v != 0.0 for u, v in uv)
    ctx.nt(nonzero_b and (re0 or f_re0) and (im0 or f_im0))
    d_f, _, sd_f, _ = dft.normal_equations(t_forced, vis, noise)
    _util_close(ctx, iiu, "data_vector_via_transformed_mapping_matrix_from", d_f, "cancel/util/data_vector", 1e-9 * (sd_f + FLOOR),
                "data_vector_via_transformed_mapping_matrix_from on a matrix with purely real / purely imaginary columns",
                transformed_mapping_matrix=t_forced.copy(), visibilities=vis.copy(), noise_map=noise.copy())
    if natural is not None and natural.shape == want.shape:
        d_n, _, sd_n, _ = dft.normal_equations(natural, vis, noise)
        _util_close(ctx, iiu, "data_vector_via_transformed_mapping_matrix_from", d_n, "cancel/util/data_vector", 1e-9 * (sd_n + FLOOR),
                    "data_vector_via_transformed_mapping_matrix_from on the transformer's own output",
                    transformed_mapping_matrix=natural.copy(), visibilities=vis.copy(), noise_map=noise.copy())

    # (d) inversions: natural route (function-list objects through the transformer) and a preloaded transformed matrix
    split = int(case["split"])
    blocks = [mm[:, :split]] + ([mm[:, split:]] if split < cols else [])
    noreg = list(range(cols))

    def make_inv(preloads=None):
        objs = [scene.build_linear_obj({"type": "func", "matrix": b.tolist(), "reg": None}, mask)[0] for b in blocks]
        t, _ = _transformer(ctx, aa, uv, mask, bool(case["preload"]))
        ds = aa.DatasetInterface(data=aa.Visibilities(visibilities=vis.copy()),
                                 noise_map=aa.VisibilitiesNoiseMap(visibilities=noise.copy()), transformer=t)
        kw = {} if preloads is None else {"preloads": preloads}
        return InversionInterferometerMapping(dataset=ds, linear_obj_list=objs, settings=_settings(aa), **kw)

    for route, inv, t_in in (("natural", make_inv(), None),
                             ("preloaded", make_inv(aa.Preloads(operated_mapping_matrix=t_forced.copy())), t_forced)):
        t_got = np.asarray(inv.operated_mapping_matrix)
        if t_in is None:
            ctx.close(t_got, want, "cancel/inversion/operated_mapping_matrix", atol=tol, what="operated_mapping_matrix vs A M")
        else:
            ctx.equal(t_got, t_in, "cancel/inversion/preloaded-operated_mapping_matrix", "preloaded transformed matrix is used as given")
        if t_got.shape != want.shape:
            continue
        d1, f1, sd, sf = dft.normal_equations(t_got, vis, noise, noreg=noreg, eps=EPS)
        ctx.close(np.array(inv.data_vector, dtype=float), d1, "cancel/inversion/%s/data_vector" % route, atol=1e-9 * (sd + FLOOR),
                  what="data_vector vs real+imaginary Gram products of the transformed matrix (%s)" % route)
        f_got = np.array(inv.curvature_matrix, dtype=float)
        ctx.close(f_got, f1, "cancel/inversion/%s/curvature_matrix" % route, atol=1e-9 * (sf + FLOOR),
                  what="curvature_matrix vs Tr^T Wr Tr + Ti^T Wi Ti + eps (%s)" % route)


# ---------------------------------------------------------------------------------------------
# sub-check 6: state on Visibilities / VisibilitiesNoiseMap objects (in-place edits, derived objects)
# ---------------------------------------------------------------------------------------------
READS = ["amplitudes", "phases", "in_array", "ordered_1d", "in_grid", "scaled_maxima"]
NOISE_READS = ["weight_list_ordered_1d", "in_array", "ordered_1d", "amplitudes", "phases"]


@st.composite
def _set_op(draw, k, positive=False):
    kind = draw(st.sampled_from(["index", "index", "bool", "bool", "slice"]))
    if positive:
        v = [draw(gens.positives(0.1, 5.0)), draw(gens.positives(0.1, 5.0))]
    else:
        v = draw(st.sampled_from([[0.0, 0.0], None, None]))
        if v is None:
            v = [draw(gens.reals(-10, 10)), draw(gens.reals(-10, 10))]
    op = {"op": "set", "kind": kind, "value": v}
    if kind == "index":
        op["i"] = draw(st.integers(0, k - 1))
    elif kind == "bool":
        bits = draw(st.lists(st.booleans(), min_size=k, max_size=k))
        if not any(bits):
            bits[draw(st.integers(0, k - 1))] = True
        op["mask"] = bits
    else:
        a_ = draw(st.integers(0, k - 1))
        op["a"], op["b"] = a_, draw(st.integers(a_ + 1, k))
    return op


@st.composite
def state_case(draw):
    """One Visibilities object (and one VisibilitiesNoiseMap) lives through a sequence: read cached / derived
    quantities, image_from, in-place edits (integer index, boolean index, slice), image_from again, derived objects
    (scalar multiple, copy, slice) that are edited in turn.  Every image_from result is compared with Re(A^H V) of
    the values the object holds at that moment."""
    c = draw(geometry(lo=1, hi=5))
    k = len(c["uv"])
    vals = draw(st.lists(gens.reals(-10, 10, allow_zero=False), min_size=2 * k, max_size=2 * k))
    c["vis"] = [[vals[2 * i], vals[2 * i + 1]] for i in range(k)]
    c["preload"] = draw(st.booleans())
    c["adjoint_flag"] = draw(st.sampled_from([None, None, False, True, True]))
    ops = [{"op": "read", "what": w_} for w_ in draw(st.lists(st.sampled_from(READS), min_size=0, max_size=3))]
    if draw(st.integers(0, 3)) > 0:
        ops.append({"op": "image"})
    ops += [draw(_set_op(k)) for _ in range(draw(st.integers(1, 2)))]
    ops.append({"op": "image"})
    cur_k = k
    for _ in range(draw(st.integers(0, 5))):
        kind = draw(st.sampled_from(["read", "image", "set", "set", "mul", "copy", "slice"]))
        if kind == "read":
            ops.append({"op": "read", "what": draw(st.sampled_from(READS))})
        elif kind == "image":
            ops.append({"op": "image"})
        elif kind == "set":
            ops.append(draw(_set_op(cur_k)))
        elif kind == "mul":
            ops.append({"op": "mul", "c": draw(st.sampled_from([2.0, -1.0, 0.5, 3.0]))})
        elif kind == "copy":
            ops.append({"op": "copy"})
        elif cur_k >= 2:
            a_ = draw(st.integers(0, cur_k - 1))
            b_ = draw(st.integers(a_ + 1, cur_k))
            ops.append({"op": "slice", "a": a_, "b": b_})
            cur_k = b_ - a_
    c["ops"] = ops
    # inversion part: noise map (and data) edited in place between construction and use
    n = sum(1 for r in c["mask"] for v in r if not v)
    cols = draw(st.integers(1, 3))
    mat = draw(st.lists(gens.reals(-3, 3), min_size=n * cols, max_size=n * cols))
    c["matrix"] = [mat[i * cols:(i + 1) * cols] for i in range(n)]
    nz = draw(st.lists(gens.positives(0.1, 5.0), min_size=2 * k, max_size=2 * k))
    c["noise"] = [[nz[2 * i], nz[2 * i + 1]] for i in range(k)]
    c["noise_reads"] = draw(st.lists(st.sampled_from(NOISE_READS), min_size=0, max_size=2))
    c["first_inversion"] = draw(st.booleans())
    c["noise_ops"] = [draw(_set_op(k, positive=True)) for _ in range(draw(st.integers(1, 2)))]
    c["data_ops"] = [draw(_set_op(k)) for _ in range(draw(st.integers(0, 1)))]
    c["noise_derive"] = draw(st.sampled_from(["none", "none", "mul", "copy-then-edit"]))
    c["route"] = draw(st.sampled_from(["interface", "interface", "interferometer"]))
    return c


def _apply_set(obj, op):
    v = complex(op["value"][0], op["value"][1])
    if op["kind"] == "index":
        obj[int(op["i"])] = v
    elif op["kind"] == "bool":
        obj[np.asarray(op["mask"], dtype=bool)] = v
    else:
        obj[int(op["a"]):int(op["b"])] = v


def body_state(case, ctx):
    import autoarray as aa
    from autoarray.inversion.inversion.interferometer.mapping import InversionInterferometerMapping
    m, uv, mask, grid_ref, a, _ = _setup(case, ctx)
    k = len(uv)
    preload = bool(case["preload"])
    ctx.label("path:%s" % ("preload" if preload else "direct"), "adjoint-flag:%s" % case.get("adjoint_flag"))
    flag_kw = {} if case.get("adjoint_flag") is None else {"use_adjoint_scaling": bool(case["adjoint_flag"])}
    transformers = {}

    def transformer_for(sel):
        key = tuple(sel)
        if key not in transformers:
            transformers[key] = aa.TransformerDFT(uv_wavelengths=uv[list(sel)].copy(), real_space_mask=mask, preload_transform=preload)
        return transformers[key]

    def check_image(obj, sel, key, what):
        cur = np.array(obj, dtype=complex).copy()     # the values the object holds now
        im = transformer_for(sel).image_from(visibilities=obj, **flag_kw)
        s_ = float((np.abs(cur.real) + np.abs(cur.imag)).sum()) + FLOOR
        ctx.close(np.asarray(im.slim), dft.adjoint_real(a[list(sel)], cur), key, atol=1e-9 * s_,
                  what="image_from(V) vs Re(A^H V_current), %s" % what)

    # ---- part A: a Visibilities object through reads, in-place edits and derivations -------------------------------
    vis0 = np.asarray([complex(r, i) for r, i in case["vis"]], dtype=complex)
    obj, sel, origin = aa.Visibilities(visibilities=vis0.copy()), list(range(k)), "fresh"
    objects = [(obj, sel, "original")]
    read_any = imaged_before_edit = edited = False
    state = "fresh"
    for op in case["ops"]:
        if op["op"] == "read":
            getattr(obj, op["what"])
            read_any = True
            ctx.label("read:%s" % op["what"])
        elif op["op"] == "image":
            check_image(obj, sel, "vis-state/image_from/%s/%s" % (origin, state), "object %s, %s" % (origin, state))
            if state == "fresh":
                imaged_before_edit = True
        elif op["op"] == "set":
            before = np.array(obj, dtype=complex).copy()
            _apply_set(obj, op)
            changed = not np.array_equal(before, np.array(obj, dtype=complex))
            ctx.label("edit:%s" % op["kind"], "edit:changed-values" if changed else "edit:no-change")
            if changed:
                state, edited = "after-in-place-edit", True
        elif op["op"] == "mul":
            obj = obj * float(op["c"])
            origin, state = "derived-mul", "fresh"
            objects.append((obj, sel, origin))
        elif op["op"] == "copy":
            obj = obj.copy()
            origin, state = "derived-copy", "fresh"
            objects.append((obj, sel, origin))
        elif op["op"] == "slice":
            obj = obj[int(op["a"]):int(op["b"])]
            sel = sel[int(op["a"]):int(op["b"])]
            origin, state = "derived-slice", "fresh"
            objects.append((obj, sel, origin))
    ctx.label("objects:%d" % len(objects) if len(objects) <= 2 else "objects:>=3")
    for o in {o_[2] for o_ in objects}:
        ctx.label("object:%s" % o)
    # every object that was created, at the end, against the values it holds at the end
    for o, sl, org in objects:
        check_image(o, sl, "vis-state/image_from/%s/final" % org, "object %s at the end of the sequence" % org)
    ctx.nt(edited and (read_any or imaged_before_edit) and any(u != 0.0 or v != 0.0 for u, v in uv))
    if read_any or imaged_before_edit:
        ctx.label("sequence:read-or-image-before-edit")

    # ---- part B: noise map / data edited in place, then used by an inversion ----------------------------------------
    mm = np.asarray(case["matrix"], dtype=float)
    noise0 = np.asarray([complex(r, i) for r, i in case["noise"]], dtype=complex)
    data = aa.Visibilities(visibilities=vis0.copy())
    nmap = aa.VisibilitiesNoiseMap(visibilities=noise0.copy())
    route = case["route"]
    ctx.label("route:%s" % route, "noise-derive:%s" % case["noise_derive"])
    t_ref = a @ mm
    tol_t = 1e-9 * (float(np.abs(mm).sum(axis=0).max(initial=0.0)) + FLOOR)
    noreg = list(range(mm.shape[1]))

    def inversion(d_obj, n_obj, ds=None):
        objs = [scene.build_linear_obj({"type": "func", "matrix": mm.tolist(), "reg": None}, mask)[0]]
        if ds is None:
            t = aa.TransformerDFT(uv_wavelengths=uv.copy(), real_space_mask=mask, preload_transform=preload)
            ds = aa.DatasetInterface(data=d_obj, noise_map=n_obj, transformer=t)
            return InversionInterferometerMapping(dataset=ds, linear_obj_list=objs, settings=_settings(aa))
        return aa.Inversion(dataset=ds, linear_obj_list=objs, settings=_settings(aa))

    def check_inversion(inv, d_obj, n_obj, tag):
        v_cur = np.array(d_obj, dtype=complex).copy()
        s_cur = np.array(n_obj, dtype=complex).copy()
        t_got = np.asarray(inv.operated_mapping_matrix)
        ctx.close(t_got, t_ref, "vis-state/inversion/operated_mapping_matrix", atol=tol_t, what="operated_mapping_matrix vs A M")
        d1, f1, sd, sf = dft.normal_equations(t_ref, v_cur, s_cur, noreg=noreg, eps=EPS, t_abs=np.abs(a) @ np.abs(mm))
        ctx.close(np.array(inv.data_vector, dtype=float), d1, "vis-state/inversion/%s/data_vector" % tag, atol=1e-8 * (sd + FLOOR),
                  what="data_vector vs Gram products with the values the data / noise objects hold now (%s, %s)" % (route, tag))
        ctx.close(np.array(inv.curvature_matrix, dtype=float), f1, "vis-state/inversion/%s/curvature_matrix" % tag,
                  atol=1e-8 * (sf + FLOOR),
                  what="curvature_matrix vs Gram products with the values the noise object holds now (%s, %s)" % (route, tag))

    ds = None
    if route == "interferometer":
        ds = aa.Interferometer(data=data, noise_map=nmap, uv_wavelengths=uv.copy(), real_space_mask=mask,
                               transformer_class=aa.TransformerDFT)
        data, nmap = ds.data, ds.noise_map
    for w_ in case["noise_reads"]:
        getattr(nmap, w_)
        ctx.label("noise-read:%s" % w_)
    if case["first_inversion"]:
        check_inversion(inversion(data, nmap, ds), data, nmap, "before-edit")
    for op in case["noise_ops"]:
        _apply_set(nmap, op)
        ctx.label("noise-edit:%s" % op["kind"])
    for op in case["data_ops"]:
        _apply_set(data, op)
        ctx.label("data-edit:%s" % op["kind"])
    check_inversion(inversion(data, nmap, ds), data, nmap, "after-in-place-edit")
    if case["noise_derive"] != "none" and route == "interface":
        if case["noise_derive"] == "mul":
            n2 = nmap * 2.0
        else:
            n2 = nmap.copy()
            _apply_set(n2, case["noise_ops"][0] if case["noise_ops"][0]["kind"] != "index"
                       else dict(case["noise_ops"][0], i=(int(case["noise_ops"][0]["i"]) + 1) % k, value=[7.0, 0.3]))
        check_inversion(inversion(data, n2), data, n2, "derived-noise-%s" % case["noise_derive"])
        check_inversion(inversion(data, nmap), data, nmap, "original-noise-after-derivation")


# ---------------------------------------------------------------------------------------------
# sub-check 7: large baseline counts around round thresholds
# ---------------------------------------------------------------------------------------------
def _large_inputs(case):
    """Deterministic expansion of the compact case: Kronecker (golden-ratio type) sequences for the baselines and
    trigonometric sequences for the visibilities - closed forms of the index, no RNG."""
    k = int(case["k"])
    idx = np.arange(k, dtype=float)
    fu = np.mod(idx * 0.6180339887498949 + float(case["uv_shift"][0]), 1.0)
    fv = np.mod(idx * 0.7548776662466927 + float(case["uv_shift"][1]), 1.0)
    uv = np.stack([(2.0 * fu - 1.0) * float(case["uv_max"][0]), (2.0 * fv - 1.0) * float(case["uv_max"][1])], axis=-1)
    for j in case.get("zero_rows", []):          # a few exact zero baselines / repeated baselines inside the long list
        uv[int(j) % k] = 0.0
    for j_from, j_to in case.get("repeat_rows", []):
        uv[int(j_to) % k] = uv[int(j_from) % k]
    vis = np.sin(0.37 * idx + 1.0) * 3.0 + 1j * np.cos(0.91 * idx + 0.5) * 2.0
    return uv, vis


def cases_large(tier):
    base = {"pixel_scales": [0.3, 0.5], "origin": [0.6, -1.1], "uv_max": [9.0e5, 7.0e5], "uv_shift": [0.11, 0.37],
            "zero_rows": [5], "repeat_rows": [[7, 70001]]}
    m1 = [[True, False], [True, True]]
    m2 = [[False, True, True], [True, True, False]]
    m3 = [[False, True], [False, False]]
    i1, i2, i3 = [2.5], [1.5, -2.0], [0.75, -1.25, 3.0]
    x1, x2, x3 = [[-1.5, 0.25]], [[1.0], [-0.5]], [[2.0, -1.0], [0.0, 0.5], [-3.0, 1.0]]
    quick = [
        dict(base, k=131073, mask=m1, image=i1, matrix=x1, preload=True, adjoint_flag=True),
        dict(base, k=100001, mask=m1, image=i1, matrix=x1, preload=False, adjoint_flag=None),
    ]
    if tier == "quick":
        return quick
    return quick + [
        dict(base, k=65535, mask=m2, image=i2, matrix=x2, preload=True, adjoint_flag=False),
        dict(base, k=65537, mask=m2, image=i2, matrix=x2, preload=True, adjoint_flag=True),
        dict(base, k=65536, mask=m1, image=i1, matrix=x1, preload=False, adjoint_flag=True),
        dict(base, k=99999, mask=m2, image=i2, matrix=x2, preload=True, adjoint_flag=None),
        dict(base, k=100000, mask=m1, image=i1, matrix=x1, preload=True, adjoint_flag=False),
        dict(base, k=100001, mask=m3, image=i3, matrix=x3, preload=True, adjoint_flag=True),
        dict(base, k=131073, mask=m2, image=i2, matrix=x2, preload=False, adjoint_flag=False),
        dict(base, k=262145, mask=m1, image=i1, matrix=x1, preload=True, adjoint_flag=True),
    ]


def body_large(case, ctx):
    import autoarray as aa
    m = np.asarray(case["mask"], dtype=bool)
    uv, vis = _large_inputs(case)
    k = len(uv)
    mask = scene.build_mask(case)
    grid_ref = dft.centres_radians(m, case["pixel_scales"], case["origin"])
    a = dft.operator(grid_ref, uv)
    img = np.asarray(case["image"], dtype=float)
    mm = np.asarray(case["matrix"], dtype=float)
    preload = bool(case["preload"])
    path = "preload" if preload else "direct"
    ctx.label("k=%d" % k, "pixels:%d" % len(img), "path:%s" % path, "adjoint-flag:%s" % case["adjoint_flag"])
    ctx.nt(k >= 65535)
    t = aa.TransformerDFT(uv_wavelengths=uv.copy(), real_space_mask=mask, preload_transform=preload)
    # |phase| <= 2 pi * 1e-5 rad * 1.6e6 ~ 100 rad: float64 cos/sin carry ~1e-14; 1e-12 leaves two orders of margin
    # and is five orders below the 6e-8 of a float32 table
    v = np.asarray(t.visibilities_from(image=aa.Array2D(values=img.copy(), mask=mask)))
    ctx.close(v, a @ img, "large/%s/visibilities_from" % path, atol=1e-12 * (float(np.abs(img).sum()) + FLOOR),
              what="visibilities_from vs A I, K=%d" % k)
    g = np.asarray(t.transform_mapping_matrix(mapping_matrix=mm.copy()))
    ctx.close(g, a @ mm, "large/%s/transform_mapping_matrix" % path,
              atol=1e-12 * (float(np.abs(mm).sum(axis=0).max(initial=0.0)) + FLOOR), what="transform_mapping_matrix vs A M, K=%d" % k)
    kw = {} if case["adjoint_flag"] is None else {"use_adjoint_scaling": bool(case["adjoint_flag"])}
    im = t.image_from(visibilities=aa.Visibilities(visibilities=vis.copy()), **kw)
    s_vis = float((np.abs(vis.real) + np.abs(vis.imag)).sum()) + FLOOR
    ctx.close(np.asarray(im.slim), dft.adjoint_real(a, vis), "large/image_from", atol=1e-12 * s_vis,
              what="image_from(V, %s) vs Re(A^H V), K=%d (%s)" % (kw, k, path))


SUBCHECKS = [
    SubCheck("large", body_large, cases=cases_large, shards={"quick": 2, "thorough": 10}),
    SubCheck("transform", body_transform, strategy=transform_case(),
             examples={"quick": 1800, "thorough": 24000}, shards={"quick": 3, "thorough": 16}),
    SubCheck("matrix", body_matrix, strategy=matrix_case(),
             examples={"quick": 1500, "thorough": 20000}, shards={"quick": 3, "thorough": 16}),
    SubCheck("inversion", body_inversion, strategy=inversion_case(),
             examples={"quick": 1200, "thorough": 12000}, shards={"quick": 3, "thorough": 16}),
    SubCheck("family", body_family, strategy=family_case(),
             examples={"quick": 700, "thorough": 8000}, shards={"quick": 2, "thorough": 16}),
    SubCheck("cancel", body_cancel, strategy=cancel_case(),
             examples={"quick": 700, "thorough": 8000}, shards={"quick": 2, "thorough": 16}),
    SubCheck("state", body_state, strategy=state_case(),
             examples={"quick": 900, "thorough": 8000}, shards={"quick": 3, "thorough": 16}),
]
