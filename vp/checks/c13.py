"""C13 — direct Fourier transform, its preload variant and adjoint; interferometer mapping-formalism
normal equations."""
import numpy as np
from hypothesis import strategies as st

from vp import gens, scene
from vp.engine import SubCheck
from vp.ref import dft

PROPERTY = "C13"
RULE = (
    "Hypothesis cases: masks up to 6x6 from every gens.masks family (holes, several components, 1xN, full), pixel "
    "scales 0.05..5 arcsec (iso/anisotropic), origins up to 20 arcsec, 1..8 baselines with components +-1e2..1e6 "
    "wavelengths (log-uniform, round values, single-axis, the zero baseline, repeated baselines); real signed images "
    "given slim-stored and native-stored; complex visibilities; real matrices (non-negative, signed, sparse-signed, "
    "fractional, tiny); complex noise maps with independent positive real and imaginary parts; preload_transform on "
    "and off in every case. Oracle: dense A[k,p]=exp(-2 pi i (x_p u_k + y_p v_k)) built in numpy from the closed-form "
    "pixel centres (vp/ref/dft.py): visibilities_from == A I, preload == direct, image_from == Re(A^H V) placed on the "
    "mask, <A I, V> == <I, A^H V> (dot-product test), transform_mapping_matrix(M) == A M (also through M = M+ - M- by "
    "linearity; a mismatch on a matrix with negative entries while the linearity form holds is keyed as the "
    "dropped-entries class), the util functions called directly with the reference grid; InversionInterferometerMapping (built "
    "directly, through the factory on a DatasetInterface, and on an Interferometer with transformer_class=TransformerDFT; "
    "1..2 linear objects from {signed function list, rectangular mapper}, with/without regularization): "
    "operated_mapping_matrix == A M, D and F == noise-weighted real+imaginary Gram products of the transformed mapping "
    "matrix (of the implementation's own transformed matrix, and end to end of A M) plus the explicit eps on "
    "unregularized parameters, F symmetric. Non-trivial = at least two distinct non-zero baselines and a mask with both "
    "masked and unmasked pixels (matrix sub-check: additionally a negative matrix entry); distinct = SHA-1 of the "
    "canonical case."
)
ASSUMPTIONS = [
    "a stand-in `pylops.LinearOperator` base class (vp/stubs/pylops.py) is installed so TransformerDFT can be constructed; the DFT code never calls into it",
    "pixel centres follow C02's closed form y=((H-1)/2-i)*sy+oy, x=(j-(W-1)/2)*sx+ox, radians = arcsec*pi/648000; the transformer's grid is compared to it at rtol 1e-12 plus 1e-12 of (largest |coordinate| + one pixel)",
    "tolerances: values 1e-9 relative to the sum of the magnitudes of the summed terms (|phase| <= ~2200 rad so cos/sin carry <= ~1e-12 absolute error); preload vs direct 1e-12 on the same scale; D and F 1e-9 of the largest sum of term magnitudes; symmetry 1e-12; every tolerance scale has an absolute floor of 1e-280 so that denormal inputs (whose products underflow) are not compared relatively",
    "the mappers' own mapping_matrix is taken as input for the inversion sub-check (its content belongs to C06)",
    "TransformerNUFFT, the w-tilde interferometer path and the PyLops linear-operator inversion are out of scope (external library / stubbed code)",
]
TECHNIQUE = ("property-based testing (Hypothesis) against a dense closed-form Fourier operator in numpy, with "
             "metamorphic relations (preload == direct, adjoint dot-product test, linearity)")

EPS = 1.0e-3  # no_regularization_add_to_curvature_diag_value, passed explicitly
FLOOR = 1.0e-280  # added to every tolerance scale: denormal inputs (products underflow) are compared absolutely
KEY_NATIVE = "preload-native-image"          # genuine defect: preload path rejects / mis-reads a native-stored image
KEY_NONPOS = "dft-matrix-nonpositive"        # genuine defect: transformed mapping matrix drops entries <= 0 (+ /preload, /direct)


# ---------------------------------------------------------------------------------------------
# strategies
# ---------------------------------------------------------------------------------------------
def _uv_component():
    mag = st.one_of(
        st.floats(2.0, 6.0).map(lambda e: 10.0 ** e),
        st.sampled_from([1.0e3, 5.0e4, 1.0e5, 2.5e5, 1.0e6]),
        st.integers(1, 1000).map(lambda k: k * 1000.0),
    )
    return st.tuples(mag, st.sampled_from([-1.0, 1.0])).map(lambda t: t[0] * t[1])


@st.composite
def baselines(draw, max_k=8):
    k = draw(st.integers(1, max_k))
    out = []
    for _ in range(k):
        kind = draw(st.sampled_from(["any", "any", "any", "any", "any", "zero", "repeat", "axis"]))
        if kind == "zero":
            out.append([0.0, 0.0])
        elif kind == "repeat" and out:
            out.append(list(out[draw(st.integers(0, len(out) - 1))]))
        elif kind == "axis":
            c = draw(_uv_component())
            out.append([c, 0.0] if draw(st.booleans()) else [0.0, c])
        else:
            out.append([draw(_uv_component()), draw(_uv_component())])
    return out


@st.composite
def geometry(draw, lo=1, hi=6, min_unmasked=1):
    mask = draw(gens.masks(lo=lo, hi=hi, min_unmasked=min_unmasked))
    return {"mask": mask, "pixel_scales": draw(gens.pixel_scales()), "origin": draw(gens.origins(mag=20.0)),
            "uv": draw(baselines())}


def _complex_list(draw, k, lo=-10.0, hi=10.0):
    vals = draw(st.lists(gens.reals(lo, hi), min_size=2 * k, max_size=2 * k))
    return [[vals[2 * i], vals[2 * i + 1]] for i in range(k)]


@st.composite
def transform_case(draw):
    c = draw(geometry())
    h, w = len(c["mask"]), len(c["mask"][0])
    c["image_native"] = draw(st.lists(gens.reals(-10, 10), min_size=h * w, max_size=h * w))
    c["vis"] = _complex_list(draw, len(c["uv"]))
    return c


@st.composite
def matrix_case(draw):
    c = draw(geometry())
    n = sum(1 for r in c["mask"] for v in r if not v)
    cols = draw(st.integers(1, 4))
    kind = draw(st.sampled_from(["nonneg", "signed", "signed", "signed", "sparse-signed", "sparse-signed", "fractional", "tiny"]))
    if kind == "nonneg":
        vals = draw(st.lists(gens.reals(0, 3), min_size=n * cols, max_size=n * cols))
    elif kind == "fractional":
        vals = draw(st.lists(st.floats(0, 1), min_size=n * cols, max_size=n * cols))
    elif kind == "tiny":
        vals = draw(st.lists(st.sampled_from([0.0, 1e-4, 5e-4, -1e-4, 1e-6, 2e-3, 1.0]), min_size=n * cols, max_size=n * cols))
    else:
        vals = draw(st.lists(gens.reals(-3, 3), min_size=n * cols, max_size=n * cols))
        if kind == "sparse-signed":
            keep = draw(st.lists(st.booleans(), min_size=n * cols, max_size=n * cols))
            vals = [v if kp else 0.0 for v, kp in zip(vals, keep)]
    c["matrix"] = [vals[i * cols:(i + 1) * cols] for i in range(n)]
    c["matrix_kind"] = kind
    return c


@st.composite
def inversion_case(draw):
    c = draw(geometry(lo=2, hi=5, min_unmasked=2))
    c["uv"] = c["uv"][:6]
    k = len(c["uv"])
    n = sum(1 for r in c["mask"] for v in r if not v)
    c["vis"] = _complex_list(draw, k)
    nz = draw(st.lists(gens.positives(0.1, 5.0), min_size=2 * k, max_size=2 * k))
    c["noise"] = [[nz[2 * i], nz[2 * i + 1]] for i in range(k)]
    nobj = draw(st.integers(1, 2))
    c["objs"] = [draw(scene.obj_specs(n, kinds=("func", "func", "rect"), reg_types=("constant",), max_sub=2, max_mesh=4))
                 for _ in range(nobj)]
    c["route"] = draw(st.sampled_from(["direct", "factory", "interferometer"]))
    c["preload"] = True if c["route"] == "interferometer" else draw(st.booleans())
    return c


# ---------------------------------------------------------------------------------------------
# helpers
# ---------------------------------------------------------------------------------------------
def _setup(case, ctx):
    """Builds the mask, the reference grid / operator and classification labels."""
    m = np.asarray(case["mask"], dtype=bool)
    uv = np.asarray(case["uv"], dtype=float).reshape(-1, 2)
    mask = scene.build_mask(case)
    grid_ref = dft.centres_radians(m, case["pixel_scales"], case["origin"])
    a = dft.operator(grid_ref, uv)
    for l in gens.mask_stats(m):
        ctx.label(l)
    nonzero = {(float(u), float(v)) for u, v in uv if (u != 0.0 or v != 0.0)}
    ctx.label("uv:k=%d" % len(uv) if len(uv) <= 2 else "uv:k>=3")
    if len({(float(u), float(v)) for u, v in uv}) < len(uv):
        ctx.label("uv:has-repeat")
    if any(u == 0.0 and v == 0.0 for u, v in uv):
        ctx.label("uv:has-zero")
    if any((u == 0.0) != (v == 0.0) for u, v in uv):
        ctx.label("uv:single-axis")
    ctx.label("uv:distinct-nonzero>=2" if len(nonzero) >= 2 else "uv:distinct-nonzero<2")
    ctx.label("scales:aniso" if case["pixel_scales"][0] != case["pixel_scales"][1] else "scales:iso")
    ctx.label("origin:zero" if case["origin"] == [0.0, 0.0] else "origin:nonzero")
    nt = len(nonzero) >= 2 and bool(m.any()) and bool((~m).any())
    return m, uv, mask, grid_ref, a, nt


def _transformer(ctx, aa, uv, mask, preload):
    path = "preload" if preload else "direct"
    t = ctx.impl("construct/%s" % path, aa.TransformerDFT, uv_wavelengths=uv.copy(), real_space_mask=mask,
                 preload_transform=preload)
    return t, path


def _check_grid(ctx, t, grid_ref, pixel_scales):
    # absolute part: 1e-12 of (largest |coordinate| + one pixel), so a centre that is analytically ~0 (origin
    # cancelling the half-extent, denormal origins) is compared on the scale of the frame, not of itself
    scale = float(np.abs(grid_ref).max(initial=0.0)) + max(pixel_scales) * dft.ARCSEC_TO_RAD
    ctx.close(np.asarray(t.grid), grid_ref, "grid/in_radians", rtol=1e-12, atol=1e-12 * scale,
              what="transformer grid vs closed-form centres in radians")


# ---------------------------------------------------------------------------------------------
# sub-check 1: forward transform, preload equivalence, adjoint
# ---------------------------------------------------------------------------------------------
def body_transform(case, ctx):
    import autoarray as aa
    m, uv, mask, grid_ref, a, nt = _setup(case, ctx)
    ctx.nt(nt)
    h, w = m.shape
    native_vals = np.asarray(case["image_native"], dtype=float).reshape(h, w)
    img = native_vals[~m]
    ctx.label("image:has-negative" if (img < 0).any() else "image:no-negative")
    vis = np.asarray([complex(r, i) for r, i in case["vis"]], dtype=complex)
    want_vis = a @ img
    s_img = float(np.abs(img).sum()) + FLOOR
    s_vis = float((np.abs(vis.real) + np.abs(vis.imag)).sum()) + FLOOR
    want_img = dft.adjoint_real(a, vis)
    want_img_native = dft.native_from_slim(m, want_img)

    got = {}
    for preload in (True, False):
        t, path = _transformer(ctx, aa, uv, mask, preload)
        _check_grid(ctx, t, grid_ref, case["pixel_scales"])
        # forward, slim-stored image
        image_slim = aa.Array2D(values=img.copy(), mask=mask)
        v = np.asarray(t.visibilities_from(image=image_slim))
        ctx.check(np.iscomplexobj(v), "visibilities_from/%s/dtype" % path, "visibilities are not complex")
        ctx.close(v, want_vis, "visibilities_from/%s/slim-stored" % path, atol=1e-9 * s_img,
                  what="visibilities_from(slim-stored image) vs A I")
        got[path] = v
        # forward, native-stored image (the same image in its other storage form, C01)
        image_native = aa.Array2D(values=native_vals.copy(), mask=mask, store_native=True)
        if preload:
            try:
                vn = np.asarray(t.visibilities_from(image=image_native))
            except Exception as e:  # single repository call; the direct path accepts the same input
                vn = None
                ctx.fail(KEY_NATIVE, "visibilities_from(native-stored image) with preload_transform=True raises %s: %s "
                                     "(the direct path accepts it)" % (type(e).__name__, str(e)[:200]))
            if vn is not None:
                ctx.close(vn, want_vis, KEY_NATIVE, atol=1e-9 * s_img,
                          what="visibilities_from(native-stored image), preload path, vs A I")
        else:
            vn = np.asarray(t.visibilities_from(image=image_native))
            ctx.close(vn, want_vis, "visibilities_from/direct/native-stored", atol=1e-9 * s_img,
                      what="visibilities_from(native-stored image) vs A I")
        # adjoint
        vobj = aa.Visibilities(visibilities=vis.copy())
        im = t.image_from(visibilities=vobj)
        ctx.check(isinstance(im, aa.Array2D), "image_from/type", "image_from does not return an Array2D")
        ctx.close(np.asarray(im.slim), want_img, "image_from/slim", atol=1e-9 * s_vis,
                  what="image_from(V).slim vs Re(A^H V) (%s)" % path)
        ctx.close(np.asarray(im.native), want_img_native, "image_from/native", atol=1e-9 * s_vis,
                  what="image_from(V).native vs Re(A^H V) placed on the mask (%s)" % path)
        ctx.check(np.array_equal(np.asarray(im.mask), m), "image_from/mask", "image_from result carries a different mask")
        # dot-product test, no reference operator involved: Re<A I, V> == <I, Re(A^H V)>
        lhs = float(np.real(np.vdot(vis, v)))
        rhs = float(np.dot(img, np.asarray(im.slim, dtype=float))) if np.asarray(im.slim).shape == img.shape else np.nan
        ctx.close(lhs, rhs, "adjoint/dot-product", atol=1e-9 * s_img * s_vis,
                  what="Re<A I, V> vs <I, image_from(V)> (%s)" % path)
    if got["preload"].shape == got["direct"].shape:
        ctx.close(got["preload"], got["direct"], "visibilities_from/preload-vs-direct", atol=1e-12 * s_img,
                  what="visibilities with vs without preloaded tables")

    # util functions called directly with the reference grid (independent of Mask2D / Grid2D code)
    tu = aa.util.transformer
    phase = 2.0 * np.pi * (np.outer(grid_ref[:, 1], uv[:, 0]) + np.outer(grid_ref[:, 0], uv[:, 1]))  # (N, K)
    pr = tu.preload_real_transforms(grid_radians=grid_ref.copy(), uv_wavelengths=uv.copy())
    pi_ = tu.preload_imag_transforms(grid_radians=grid_ref.copy(), uv_wavelengths=uv.copy())
    ctx.close(pr, np.cos(phase), "util/preload_real_transforms", atol=1e-9, what="cosine table vs cos(2 pi (x u + y v))")
    ctx.close(pi_, -np.sin(phase), "util/preload_imag_transforms", atol=1e-9, what="sine table vs -sin(2 pi (x u + y v))")
    ctx.close(tu.visibilities_jit(image_1d=img.copy(), grid_radians=grid_ref.copy(), uv_wavelengths=uv.copy()), want_vis,
              "util/visibilities_jit", atol=1e-9 * s_img, what="visibilities_jit vs A I")
    ctx.close(tu.visibilities_via_preload_jit_from(image_1d=img.copy(), preloaded_reals=np.cos(phase), preloaded_imags=-np.sin(phase)),
              want_vis, "util/visibilities_via_preload_jit_from", atol=1e-9 * s_img, what="preload sum (reference tables) vs A I")
    ctx.close(tu.image_via_jit_from(n_pixels=len(img), grid_radians=grid_ref.copy(), uv_wavelengths=uv.copy(),
                                    visibilities=np.stack([vis.real, vis.imag], axis=-1)),
              want_img, "util/image_via_jit_from", atol=1e-9 * s_vis, what="image_via_jit_from vs Re(A^H V)")


# ---------------------------------------------------------------------------------------------
# sub-check 2: transformed mapping matrix
# ---------------------------------------------------------------------------------------------
def _matrix_transform_check(ctx, fn, mm, want, tol, general_key, path, what):
    """fn(M) must equal `want` = A M.  The operator is first exercised through linearity on the two non-negative
    matrices M+ = max(M,0), M- = max(-M,0): T(M+) - T(M-) == A M (key `general_key`).  A mismatch of T(M) itself on a
    matrix with negative entries while that relation holds is the 'entries <= 0 are dropped' class (KEY_NONPOS/<path>);
    any other mismatch is keyed `general_key`."""
    has_neg = bool((mm < 0).any())
    plus, minus = np.where(mm > 0, mm, 0.0), np.where(mm < 0, -mm, 0.0)
    gp, gm = np.asarray(fn(plus.copy())), np.asarray(fn(minus.copy()))
    lin = gp - gm if gp.shape == gm.shape else None
    lin_ok = lin is not None and lin.shape == want.shape and bool(np.all(np.abs(lin - want) <= 2 * tol))
    ctx.close(lin, want, general_key, atol=2 * tol, what="T(max(M,0)) - T(max(-M,0)) vs A M; " + what)
    g = np.asarray(fn(mm.copy()))
    key = "%s/%s" % (KEY_NONPOS, path) if (has_neg and lin_ok) else general_key
    ctx.close(g, want, key, atol=tol, what="T(M) vs A M (matrix %s negative entries); %s" % ("with" if has_neg else "without", what))
    return g


def body_matrix(case, ctx):
    import autoarray as aa
    m, uv, mask, grid_ref, a, nt = _setup(case, ctx)
    mm = np.asarray(case["matrix"], dtype=float)
    has_neg = bool((mm < 0).any())
    ctx.label("matrix:%s" % case.get("matrix_kind", "?"))
    ctx.label("matrix:has-negative" if has_neg else "matrix:no-negative")
    ctx.nt(nt and has_neg)
    want = a @ mm
    tol = 1e-9 * (float(np.abs(mm).sum(axis=0).max(initial=0.0)) + FLOOR)
    tu = aa.util.transformer
    phase = 2.0 * np.pi * (np.outer(grid_ref[:, 1], uv[:, 0]) + np.outer(grid_ref[:, 0], uv[:, 1]))
    got = {}
    for preload in (True, False):
        t, path = _transformer(ctx, aa, uv, mask, preload)
        _check_grid(ctx, t, grid_ref, case["pixel_scales"])
        got[path] = _matrix_transform_check(ctx, lambda x: t.transform_mapping_matrix(mapping_matrix=x), mm, want, tol,
                                            "transform_mapping_matrix/%s/values" % path, path,
                                            "TransformerDFT.transform_mapping_matrix, %s" % path)
    if not has_neg and got["preload"].shape == got["direct"].shape:
        ctx.close(got["preload"], got["direct"], "transform_mapping_matrix/preload-vs-direct", atol=1e-3 * tol,
                  what="transformed mapping matrix with vs without preloaded tables")
    # util functions directly with the reference grid / reference tables
    _matrix_transform_check(ctx, lambda x: tu.transformed_mapping_matrix_jit(mapping_matrix=x, grid_radians=grid_ref.copy(),
                                                                             uv_wavelengths=uv.copy()),
                            mm, want, tol, "util/transformed_mapping_matrix_jit", "direct", "util.transformer.transformed_mapping_matrix_jit")
    _matrix_transform_check(ctx, lambda x: tu.transformed_mapping_matrix_via_preload_jit_from(
        mapping_matrix=x, preloaded_reals=np.cos(phase), preloaded_imags=-np.sin(phase)),
                            mm, want, tol, "util/transformed_mapping_matrix_via_preload_jit_from", "preload",
                            "util.transformer.transformed_mapping_matrix_via_preload_jit_from (reference tables)")


# ---------------------------------------------------------------------------------------------
# sub-check 3: interferometer mapping-formalism normal equations
# ---------------------------------------------------------------------------------------------
def _settings(aa):
    return aa.SettingsInversion(use_w_tilde=False, use_positive_only_solver=False, use_linear_operators=False,
                                no_regularization_add_to_curvature_diag_value=EPS, force_edge_pixels_to_zeros=False)


def body_inversion(case, ctx):
    import autoarray as aa
    from autoarray.inversion.inversion.interferometer.mapping import InversionInterferometerMapping
    m, uv, mask, grid_ref, a, nt = _setup(case, ctx)
    ctx.nt(nt)
    route, preload = case["route"], bool(case["preload"])
    path = "preload" if preload else "direct"
    ctx.label("route:%s" % route, "path:%s" % path)
    types = [o["type"] for o in case["objs"]]
    ctx.label("objs:%d" % len(types))
    for o in case["objs"]:
        ctx.label("obj:%s" % o["type"], "reg:none" if o.get("reg") is None else "reg:%s" % o["reg"]["type"])
    vis = np.asarray([complex(r, i) for r, i in case["vis"]], dtype=complex)
    noise = np.asarray([complex(r, i) for r, i in case["noise"]], dtype=complex)
    objs = [scene.build_linear_obj(spec, mask)[0] for spec in case["objs"]]
    mats = [np.asarray(o.mapping_matrix, dtype=float) for o in objs]
    mm = np.hstack(mats)
    has_neg = bool((mm < 0).any())
    ctx.label("matrix:has-negative" if has_neg else "matrix:no-negative")
    noreg, start = [], 0
    for o, mat in zip(objs, mats):
        if o.regularization is None:
            noreg.extend(range(start, start + mat.shape[1]))
        start += mat.shape[1]
    ctx.label("noreg:%s" % ("none" if not noreg else ("one" if len(noreg) == 1 else "several")))

    data = aa.Visibilities(visibilities=vis.copy())
    nmap = aa.VisibilitiesNoiseMap(visibilities=noise.copy())
    if route == "interferometer":
        ds = aa.Interferometer(data=data, noise_map=nmap, uv_wavelengths=uv.copy(), real_space_mask=mask,
                               transformer_class=aa.TransformerDFT)
        inv = aa.Inversion(dataset=ds, linear_obj_list=objs, settings=_settings(aa))
    else:
        t, _ = _transformer(ctx, aa, uv, mask, preload)
        ds = aa.DatasetInterface(data=data, noise_map=nmap, transformer=t)
        if route == "direct":
            inv = InversionInterferometerMapping(dataset=ds, linear_obj_list=objs, settings=_settings(aa))
        else:
            inv = aa.Inversion(dataset=ds, linear_obj_list=objs, settings=_settings(aa))
    ctx.check(type(inv).__name__ == "InversionInterferometerMapping", "inversion/factory-class",
              "expected InversionInterferometerMapping, got %s" % type(inv).__name__)

    t_ref = a @ mm
    t_got = np.asarray(inv.operated_mapping_matrix)
    tol_t = 1e-9 * (float(np.abs(mm).sum(axis=0).max(initial=0.0)) + FLOOR)
    transform_ok = t_got.shape == t_ref.shape and bool(np.all(np.abs(t_got - t_ref) <= tol_t))
    # same classification as in the matrix sub-check: the dataset's transformer through linearity on M+ and M-
    tr = inv.transformer
    lin = np.asarray(tr.transform_mapping_matrix(mapping_matrix=np.where(mm > 0, mm, 0.0))) - \
        np.asarray(tr.transform_mapping_matrix(mapping_matrix=np.where(mm < 0, -mm, 0.0)))
    lin_ok = lin.shape == t_ref.shape and bool(np.all(np.abs(lin - t_ref) <= 2 * tol_t))
    ctx.close(lin, t_ref, "inversion/transformer/%s" % path, atol=2 * tol_t, what="dataset transformer: T(M+) - T(M-) vs A M")
    ctx.close(t_got, t_ref, "%s/%s" % (KEY_NONPOS, path) if (has_neg and lin_ok) else "inversion/operated_mapping_matrix",
              atol=tol_t, what="operated_mapping_matrix vs A hstack(M) (%s)" % path)
    d_got = np.array(inv.data_vector, dtype=float)
    f_got = np.array(inv.curvature_matrix, dtype=float)
    # (1) the statement as written: Gram products of the transformed mapping matrix the inversion holds
    if t_got.shape == t_ref.shape:
        d1, f1, sd, sf = dft.normal_equations(t_got, vis, noise, noreg=noreg, eps=EPS)
        ctx.close(d_got, d1, "inversion/data_vector", atol=1e-9 * (sd + FLOOR),
                  what="data_vector vs sum Re V Re T / sr^2 + Im V Im T / si^2 (T = inversion's transformed matrix)")
        ctx.close(f_got, f1, "inversion/curvature_matrix", atol=1e-9 * (sf + FLOOR),
                  what="curvature_matrix vs Tr^T Wr Tr + Ti^T Wi Ti + eps on unregularized (T = inversion's transformed matrix)")
        if f_got.shape == f1.shape:
            ctx.close(f_got, f_got.T, "inversion/curvature_symmetry", atol=1e-12 * (sf + FLOOR), what="curvature_matrix symmetry")
    # (2) end to end against the independent operator
    if transform_ok:
        d2, f2, sd, sf = dft.normal_equations(t_ref, vis, noise, noreg=noreg, eps=EPS)
        ctx.close(d_got, d2, "inversion/data_vector/end-to-end", atol=1e-8 * (sd + FLOOR), what="data_vector vs Gram products of A M")
        ctx.close(f_got, f2, "inversion/curvature_matrix/end-to-end", atol=1e-8 * (sf + FLOOR), what="curvature_matrix vs Gram products of A M")
    else:
        ctx.label("end-to-end-skipped:transform-mismatch")


SUBCHECKS = [
    SubCheck("transform", body_transform, strategy=transform_case(),
             examples={"quick": 3000, "thorough": 24000}, shards={"quick": 6, "thorough": 16}),
    SubCheck("matrix", body_matrix, strategy=matrix_case(),
             examples={"quick": 2500, "thorough": 20000}, shards={"quick": 5, "thorough": 16}),
    SubCheck("inversion", body_inversion, strategy=inversion_case(),
             examples={"quick": 2000, "thorough": 12000}, shards={"quick": 5, "thorough": 16}),
]
