"""C04 — data vector and curvature matrix equal the normal equations in both formalisms."""
import numpy as np
from hypothesis import strategies as st

from vp import gens, scene
from vp.engine import SubCheck
from vp.ref import conv as refconv

PROPERTY = "C04"
RULE = (
    "(extended) data and noise are expressed in flux units of 2**k, k in {-30,-10,0,8,12,16,20} (absolute thresholds on noise-weighted terms only bite at large noise); PSFs include whole-number kernels; sub-check shared-w_tilde: one WTildeImaging / convolver object shared (DatasetInterface or Preloads) by inversions of 2-4 different data vectors, each checked against its own normal equations. "
    "Hypothesis scenarios: ring-padded masks (inner part up to 5x5, holes / several components), odd PSFs 1..5 per "
    "axis (square and non-square, non-negative / signed / sparse / normalised), data of any sign, positive noise, "
    "1..3 linear objects in generated order drawn from {rectangular mapper, Delaunay mapper, function list with a "
    "signed dense matrix}, each with or without regularization, uniform or per-pixel sub-size 1..3, affine+warped "
    "source grids; both formalisms (use_w_tilde False/True). Oracle: B = A_mask @ hstack(mapping matrices) with "
    "A_mask the independent dense convolution operator of vp/ref/conv.py (not the Convolver); D = B^T (d/s^2); "
    "F = (B/s)^T(B/s) + eps*I on parameters of objects without regularization (eps passed explicitly); symmetry; "
    "block order; cross-formalism agreement of D, F, reconstruction (skipped when cond(F+H) > 1e10, counted) and "
    "mapped reconstructed data. Non-trivial = PSF non-square or signed, or >=2 objects with a function list not in "
    "last position; distinct = SHA-1 of the canonical case."
)
ASSUMPTIONS = [
    "the mappers' own mapping_matrix is taken as input here (its content is checked independently by C06)",
    "tolerances: D and F to 1e-8 relative to the largest reference entry; reconstruction to 1e-7*cond(F+H)*eps-scaled bound; mapped data 1e-6 relative",
    "Imaging is constructed directly from masked arrays with use_normalized_psf=False so the PSF is exactly the generated one",
]
TECHNIQUE = "Hypothesis-generated imaging scenarios against the normal equations built from an independent convolution operator; differential mapping vs w-tilde formalism"

EPS = 1.0e-3
UNITS = (0, 0, 0, -30, -10, 8, 12, 16, 20)   # data and noise in units of 2**k (noise up to ~5e6, down to ~1e-10)


def _reference(case, sc):
    m = np.asarray(case["mask"], dtype=bool)
    k = np.asarray(case["kernel"], dtype=float)
    a_mask, _, _ = refconv.operators(m, k)
    mats = [np.asarray(o.mapping_matrix, dtype=float) for o in sc.objs]
    mm = np.hstack(mats)
    b = a_mask @ mm
    d = np.asarray(case["data"], dtype=float)
    s = np.asarray(case["noise"], dtype=float)
    dvec = b.T @ (d / s ** 2)
    f = (b / s[:, None]).T @ (b / s[:, None])
    noreg = []
    start = 0
    ranges = []
    for o, mat in zip(sc.objs, mats):
        n = mat.shape[1]
        ranges.append((start, start + n))
        if o.regularization is None:
            noreg.extend(range(start, start + n))
        start += n
    f_eps = f.copy()
    for i in noreg:
        f_eps[i, i] += EPS
    # natural rounding scales: magnitude of the summed terms (not of the possibly cancelling result)
    scale_d = float((np.abs(b).T @ np.abs(d / s ** 2)).max()) + 1e-300
    scale_f = float((np.abs(b / s[:, None]).T @ np.abs(b / s[:, None])).max()) + 1e-7 * EPS + 1e-300
    return mm, b, dvec, f_eps, ranges, noreg, scale_d, scale_f


def _settings(aa, use_w_tilde):
    return aa.SettingsInversion(use_w_tilde=use_w_tilde, use_positive_only_solver=False,
                                no_regularization_add_to_curvature_diag_value=EPS,
                                force_edge_pixels_to_zeros=False)


def _psf_class(case):
    k = np.asarray(case["kernel"])
    return ("nonsquare" if k.shape[0] != k.shape[1] else "square") + ("-signed" if (k < 0).any() else "-nonneg")


def body_normal_equations(case, ctx):
    import autoarray as aa
    from autoarray import exc
    scene.scene_labels(case, ctx)
    k = np.asarray(case["kernel"])
    types = [o["type"] for o in case["objs"]]
    ctx.nt(k.shape[0] != k.shape[1] or (k < 0).any() or (len(types) >= 2 and "func" in types and types[-1] != "func"))
    pc = _psf_class(case)
    sc = scene.build_scene(case)
    mm, b, dvec, f_ref, ranges, noreg, scale_d, scale_f = _reference(case, sc)
    out = {}
    for use_w in (False, True):
        name = "w_tilde" if use_w else "mapping"
        key = "%s/%s" % (name, pc)
        # fresh objects per formalism: no cached state shared between the two inversions
        sc_i = scene.build_scene(case)
        inv = ctx.impl(key + "/construct", aa.Inversion, dataset=sc_i.dataset, linear_obj_list=sc_i.objs,
                       settings=_settings(aa, use_w))
        all_func = all(t == "func" for t in types)
        want_cls = "InversionImagingWTilde" if (use_w and not all_func) else "InversionImagingMapping"
        ctx.check(type(inv).__name__ == want_cls, "factory/class", "expected %s got %s" % (want_cls, type(inv).__name__))
        d_got = np.array(ctx.impl(key + "/data_vector", lambda: inv.data_vector), dtype=float)
        ctx.close(d_got, dvec, key + "/data_vector", atol=1e-8 * scale_d, what="data_vector vs B^T N^-1 d")
        f_got = np.array(ctx.impl(key + "/curvature_matrix", lambda: inv.curvature_matrix), dtype=float).copy()
        ctx.close(f_got, f_ref, key + "/curvature_matrix", atol=1e-8 * scale_f, what="curvature_matrix vs B^T N^-1 B + eps")
        if f_got.shape == f_ref.shape:
            ctx.close(f_got, f_got.T, key + "/curvature_symmetry", atol=1e-12 * scale_f, what="curvature_matrix symmetry")
        if not use_w:
            ctx.close(np.asarray(inv.operated_mapping_matrix), b, key + "/operated_mapping_matrix", atol=1e-9 * (np.abs(b).max() + 1e-300),
                      what="operated_mapping_matrix vs A_mask @ M")
        # reconstruction (unconstrained solver) and mapped data
        rec = None
        try:
            rec = np.array(inv.reconstruction, dtype=float)
            mapped = np.array(inv.mapped_reconstructed_data, dtype=float)
            err = None
        except exc.InversionException as e:
            err = "InversionException"
            mapped = None
        out[name] = (d_got, f_got, rec, mapped, err, inv)
    # block order: each diagonal block equals the single-object curvature matrix
    if len(sc.objs) >= 2:
        for (lo, hi), spec in zip(ranges, case["objs"]):
            one = dict(case); one["objs"] = [spec]
            sc1 = scene.build_scene(one)
            inv1 = aa.Inversion(dataset=sc1.dataset, linear_obj_list=sc1.objs, settings=_settings(aa, False))
            f1 = np.array(inv1.curvature_matrix, dtype=float)
            blk = out["mapping"][1][lo:hi, lo:hi] if out["mapping"][1].shape == f_ref.shape else None
            ctx.close(blk, f1, "mapping/%s/block-order" % pc, atol=1e-8 * scale_f, what="diagonal block of object %s" % spec["type"])
    # cross-formalism
    (d0, f0, r0, m0, e0, _), (d1, f1_, r1, m1, e1, inv_w) = out["mapping"], out["w_tilde"]
    ctx.close(d1, d0, "cross/%s/data_vector" % pc, atol=1e-8 * scale_d, what="w_tilde vs mapping data_vector")
    ctx.close(f1_, f0, "cross/%s/curvature_matrix" % pc, atol=1e-8 * scale_f, what="w_tilde vs mapping curvature_matrix")
    if e0 != e1:
        # the documented rejection of reconstructions whose mapper values are "all identical" uses np.allclose with
        # absolute tolerance 1e-8: when the true solution sits inside twice that band the two formalisms may
        # legitimately fall on different sides (counted as a tie), otherwise a one-sided exception is a violation
        ambiguous = False
        try:
            h_ = np.asarray(inv_w.regularization_matrix, dtype=float) if inv_w.regularization_matrix is not None else np.zeros_like(f_ref)
            if np.linalg.cond(f_ref + h_) > 1e10:
                ambiguous = True   # numerically singular system: whether LAPACK reports it is not a property of the formalism
            sol_ = np.linalg.solve(f_ref + h_, dvec)
            for (lo, hi), spec in zip(ranges, case["objs"]):
                if spec["type"] != "func" and np.all(np.abs(sol_[lo:hi] - sol_[lo]) <= 2 * (1e-8 + 1e-5 * abs(sol_[lo]))):
                    ambiguous = True
        except np.linalg.LinAlgError:
            ambiguous = True
        if ambiguous:
            ctx.tie(); ctx.label("check_reconstruction:boundary")
        else:
            ctx.fail("cross/%s/exception-mismatch" % pc, "mapping raised %s, w_tilde raised %s" % (e0, e1))
    if r0 is not None and r1 is not None:
        h = np.asarray(inv_w.regularization_matrix, dtype=float) if inv_w.regularization_matrix is not None else np.zeros_like(f_ref)
        cond = np.linalg.cond(f_ref + h)
        # solution must satisfy the reference normal equations
        if cond <= 1e10:
            sol = np.linalg.solve(f_ref + h, dvec)
            tol = 1e-7 * max(1.0, cond * 1e-6) * (np.abs(sol).max() + 1e-300) + 1e-9
            ctx.close(r0, sol, "mapping/%s/reconstruction" % pc, atol=tol, what="reconstruction vs solve(F+H, D)")
            ctx.close(r1, sol, "w_tilde/%s/reconstruction" % pc, atol=tol, what="reconstruction vs solve(F+H, D)")
            mref = b @ sol
            mtol = 1e-6 * (np.abs(mref).max() + 1.0) * max(1.0, cond * 1e-6)
            ctx.close(m0, mref, "mapping/%s/mapped_reconstructed_data" % pc, atol=mtol, what="mapped_reconstructed_data vs B @ s")
            ctx.close(m1, mref, "w_tilde/%s/mapped_reconstructed_data" % pc, atol=mtol, what="mapped_reconstructed_data vs B @ s")
        else:
            ctx.tie()
            ctx.label("cond>1e10:reconstruction-comparison-skipped")


def _case(**kw):
    return scene.scenarios(**kw)


# ---------------------------------------------------------------------------------------------
# one WTildeImaging object shared between inversions of DIFFERENT data (DatasetInterface / Preloads), as the
# library itself does when the data is modified before the inversion (model-subtracted images)
# ---------------------------------------------------------------------------------------------
@st.composite
def shared_case(draw):
    c = draw(scene.scenarios(max_objs=2, img_kwargs=dict(max_inner=4, max_k=3, unit_exponents=(0, 0, 12)), obj_kwargs=dict(max_sub=2, max_mesh=4, kinds=("rect", "delaunay", "func"))))
    n = len(c["data"])
    c["data_sequence"] = [draw(st.lists(gens.reals(-10, 10), min_size=n, max_size=n)) for _ in range(draw(st.integers(1, 3)))]
    c["via"] = draw(st.sampled_from(["dataset_interface", "preloads"]))
    return c


def body_shared(case, ctx):
    import autoarray as aa
    scene.scene_labels(case, ctx)
    ctx.label("via:%s" % case["via"])
    ctx.nt(len(case["data_sequence"]) >= 2 or True)
    unit = 2.0 ** case.get("unit_exponent", 0)
    sc0 = scene.build_scene(case)
    w_tilde = sc0.dataset.w_tilde          # one shared table object
    convolver = sc0.dataset.convolver
    seq = [list(case["data"])] + [[v * unit for v in d] for d in case["data_sequence"]] + [list(case["data"])]
    for k, data in enumerate(seq):
        one = dict(case); one["data"] = data
        sc = scene.build_scene(one)
        mm, b, dvec, f_ref, ranges, noreg, scale_d, scale_f = _reference(one, sc)
        settings = _settings(aa, True)
        if case["via"] == "dataset_interface":
            ds = aa.DatasetInterface(data=sc.dataset.data, noise_map=sc.dataset.noise_map, grids=sc.dataset.grids, convolver=convolver, w_tilde=w_tilde)
            inv = aa.Inversion(dataset=ds, linear_obj_list=sc.objs, settings=settings)
        else:
            inv = aa.Inversion(dataset=sc.dataset, linear_obj_list=sc.objs, settings=settings, preloads=aa.Preloads(w_tilde=w_tilde, use_w_tilde=True))
        key = "shared-w_tilde/%s/%s" % (case["via"], "first" if k == 0 else "later")
        ctx.close(np.array(inv.data_vector, dtype=float), dvec, key + "/data_vector", atol=1e-8 * scale_d, what="data_vector of inversion %d sharing one WTildeImaging" % k)
        ctx.close(np.array(inv.curvature_matrix, dtype=float), f_ref, key + "/curvature_matrix", atol=1e-8 * scale_f, what="curvature_matrix of inversion %d" % k)


SUBCHECKS = [
    SubCheck("normal-equations", body_normal_equations,
             strategy=_case(max_objs=3, img_kwargs=dict(max_inner=5, max_k=5, unit_exponents=UNITS), obj_kwargs=dict(max_sub=3, max_mesh=4)),
             examples={"quick": 1600, "thorough": 16000}, shards={"quick": 16, "thorough": 16}),
    SubCheck("shared-w_tilde", body_shared, strategy=shared_case(), examples={"quick": 320, "thorough": 3200}, shards={"quick": 8, "thorough": 16}),
]
