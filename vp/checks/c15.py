"""C15 — preloads and cached intermediates never change inversion outputs."""
import hashlib

import numpy as np
from hypothesis import strategies as st

from vp import scene
from vp.engine import SubCheck, machine_base, replay_history

PROPERTY = "C15"
RULE = (
    "(extended 4) setters_varied: fit_0 and fit_1 share dataset and mappers and differ in exactly one of 2-3 linear function lists (first / middle / last; lists before, after or around the mappers); after all Preloads.set_* calls the inversions of model 1, model 0 and model 1 again with that Preloads object must equal their own no-preload baselines. (extended 3) setters: the slots are filled by the library's own Preloads.set_* methods (drawn subset and order) from two fits whose inversions were built on identical, separately constructed inputs (fully read or untouched), then four successive inversions (both requested formalisms, twice) use that one Preloads object. (extended 2) more_slots: the remaining public slots an imaging inversion consults (data_vector_mapper, curvature_matrix_mapper_diag, mapper_operated_mapping_matrix_dict, linear_func_operated_mapping_matrix_dict, data_linear_func_matrix_dict), taken from a w-tilde inversion on identical separately built inputs (dictionaries keyed by that inversion's own objects), every one of the 2^5-1 subsets x both formalisms, combined with a drawn subset of the main slots; the history machine draws them too. (extended) data and noise in flux units of 2**k, k in {-10,0,10,14,18}. "
    "subsets: C04-style scenarios (1..3 linear objects mixing rectangular / Delaunay mappers and function lists, "
    "square/non-square, signed PSFs) x both formalisms x every one of the 2^5 subsets of the preload slots {w_tilde, "
    "curvature_matrix, regularization_matrix, log_det_regularization_matrix_term, operated_mapping_matrix} "
    "(enumerated inside each case) filled from a baseline inversion on identical inputs (same or other formalism), "
    "plus the preloads.use_w_tilde switch; history: rule-based state machine - one shared Preloads object, rules "
    "= start another inversion (formalism, solver drawn) / read a quantity of any live inversion in generated "
    "order / re-read. Oracle: every output (data vector, curvature matrix, regularization matrix, reconstruction, "
    "mapped data, regularization term, both log-determinant terms) equals the no-preload baseline within a "
    "tolerance scaled by the magnitude of the summed terms and cond(F+H); byte fingerprints (SHA-1) of every "
    "preloaded array unchanged after every step. Non-trivial = subset contains curvature_matrix and >=2 inversions "
    "share the preloads, or the object list mixes mapper and function list; distinct = SHA-1 of the canonical case."
)
ASSUMPTIONS = [
    "preloaded values are copies of the baseline's outputs taken before the baseline computes its regularized curvature matrix (the documented in-place addition into the array returned by curvature_matrix is C11's concern)",
    "comparisons: data vector / curvature 1e-8 of the natural term scale; reconstruction-dependent outputs 1e-7 scaled by max(1, cond*1e-6); cases with cond(F+H) > 1e10 skip reconstruction-dependent comparisons (counted)",
]
TECHNIQUE = "Hypothesis scenarios with exhaustive enumeration of preload-slot subsets (metamorphic transparency) and a rule-based state machine over inversion/read histories sharing one Preloads object"

SLOTS = ["w_tilde", "curvature_matrix", "regularization_matrix", "log_det_regularization_matrix_term", "operated_mapping_matrix"]
QUANTITIES = ["data_vector", "curvature_matrix", "regularization_matrix", "reconstruction", "mapped_reconstructed_data",
              "regularization_term", "log_det_curvature_reg_matrix_term", "log_det_regularization_matrix_term",
              "curvature_reg_matrix", "operated_mapping_matrix"]
EPS = 1e-3


def _settings(aa, use_w_tilde, positive_only=False):
    return aa.SettingsInversion(use_w_tilde=use_w_tilde, use_positive_only_solver=positive_only,
                                positive_only_uses_p_initial=True, force_edge_pixels_to_zeros=False,
                                no_regularization_add_to_curvature_diag_value=EPS)


def _fp(x):
    a = np.ascontiguousarray(np.asarray(x))
    return hashlib.sha1(a.tobytes() + str(a.shape).encode() + str(a.dtype).encode()).hexdigest()


class Baseline:
    """Outputs of a no-preload inversion on freshly built inputs (one per formalism/solver)."""

    def __init__(self, case, use_w, positive_only=False):
        import autoarray as aa
        from autoarray import exc
        self.sc = scene.build_scene(case)
        self.inv = aa.Inversion(dataset=self.sc.dataset, linear_obj_list=self.sc.objs, settings=_settings(aa, use_w, positive_only))
        inv = self.inv
        self.out = {}
        self.out["data_vector"] = np.array(inv.data_vector, dtype=float).copy()
        self.out["curvature_matrix"] = np.array(inv.curvature_matrix, dtype=float).copy()
        self.out["operated_mapping_matrix"] = np.array(inv.operated_mapping_matrix, dtype=float).copy()
        rm = inv.regularization_matrix
        self.out["regularization_matrix"] = None if rm is None else np.array(rm, dtype=float).copy()
        self.out["curvature_reg_matrix"] = np.array(inv.curvature_reg_matrix, dtype=float).copy()
        self.errs = {}
        for q in ("reconstruction", "mapped_reconstructed_data", "regularization_term", "log_det_curvature_reg_matrix_term",
                  "log_det_regularization_matrix_term"):
            try:
                v = getattr(inv, q)
                self.out[q] = float(v) if isinstance(v, (float, int, np.floating)) else np.array(v, dtype=float).copy()
            except exc.InversionException:
                self.errs[q] = "InversionException"
        self.err = "InversionException" if self.errs else None
        self.cond = float(np.linalg.cond(self.out["curvature_reg_matrix"]))
        b = self.out["operated_mapping_matrix"]
        d = np.asarray(case["data"], dtype=float); s = np.asarray(case["noise"], dtype=float)
        self.scale_d = float((np.abs(b).T @ np.abs(d / s ** 2)).max()) + 1e-300
        self.scale_f = float((np.abs(b / s[:, None]).T @ np.abs(b / s[:, None])).max()) + 1e-7 * EPS + 1e-300
        self.w_tilde = self.sc.dataset.w_tilde if use_w else None


def _preloads_from(aa, base, subset, dataset_for_w_tilde=None):
    kw = {}
    if "w_tilde" in subset:
        kw["w_tilde"] = dataset_for_w_tilde.w_tilde
    if "curvature_matrix" in subset:
        kw["curvature_matrix"] = base.out["curvature_matrix"].copy()
    if "regularization_matrix" in subset and base.out["regularization_matrix"] is not None:
        kw["regularization_matrix"] = base.out["regularization_matrix"].copy()
    if "log_det_regularization_matrix_term" in subset and "log_det_regularization_matrix_term" in base.out:
        kw["log_det_regularization_matrix_term"] = base.out["log_det_regularization_matrix_term"]
    if "operated_mapping_matrix" in subset:
        kw["operated_mapping_matrix"] = base.out["operated_mapping_matrix"].copy()
    return aa.Preloads(**kw), kw


def _read(inv, q):
    v = getattr(inv, q)
    if v is None:
        return None
    if isinstance(v, (float, int, np.floating)):
        return float(v)
    return np.array(v, dtype=float).copy()


def _compare(ctx, q, got, base, key_prefix):
    want = base.out.get(q)
    key = "%s/%s" % (key_prefix, q)
    if want is None or got is None:
        ctx.check((want is None) == (got is None), key, "one of baseline / preloaded %s is None" % q)
        return
    if q in ("data_vector",):
        ctx.close(got, want, key, atol=1e-8 * base.scale_d, what=q)
    elif q in ("curvature_matrix", "curvature_reg_matrix", "regularization_matrix"):
        sc = base.scale_f + (float(np.abs(want).max()) if q != "curvature_matrix" else 0.0)
        ctx.close(got, want, key, atol=1e-8 * sc, what=q)
    elif q == "operated_mapping_matrix":
        ctx.close(got, want, key, atol=1e-10 * (float(np.abs(want).max()) + 1e-300), what=q)
    elif q == "log_det_regularization_matrix_term":
        ctx.close(got, want, key, atol=1e-8 * (abs(want) + 1.0), what=q)
    else:
        if base.cond > 1e10:
            ctx.tie()
            return
        amp = max(1.0, base.cond * 1e-6)
        sc = float(np.abs(np.asarray(want)).max()) + 1.0
        ctx.close(got, want, key, atol=1e-7 * amp * sc, what=q)


# ---------------------------------------------------------------------------------------------
@st.composite
def subsets_case(draw):
    c = draw(scene.scenarios(max_objs=3, img_kwargs=dict(max_inner=4, max_k=3, unit_exponents=(0, 0, 0, -10, 10, 14, 18)), obj_kwargs=dict(max_sub=2, max_mesh=4)))
    c["fill_from_other_formalism"] = draw(st.booleans())
    c["positive_only"] = draw(st.sampled_from([False, False, True]))
    return c


def body_subsets(case, ctx):
    import autoarray as aa
    from autoarray import exc
    scene.scene_labels(case, ctx)
    types = [o["type"] for o in case["objs"]]
    all_func = all(t == "func" for t in types)
    ctx.nt("func" in types and len(set(types)) > 1 or len(types) >= 2)
    pos = case["positive_only"]
    bases = {w: Baseline(case, w, pos) for w in (False, True)}
    for use_w in (False, True):
        base = bases[use_w]
        filler = bases[not use_w] if case["fill_from_other_formalism"] else base
        fname = "w_tilde" if use_w else "mapping"
        for bits in range(32):
            subset = [s for i, s in enumerate(SLOTS) if (bits >> i) & 1]
            sc = scene.build_scene(case)
            pre, kw = _preloads_from(aa, filler, subset, sc.dataset)
            fps = {k: _fp(v) for k, v in kw.items() if isinstance(v, np.ndarray)}
            inv = aa.Inversion(dataset=sc.dataset, linear_obj_list=sc.objs, settings=_settings(aa, use_w, pos), preloads=pre)
            want_cls = "InversionImagingWTilde" if (use_w and not all_func) else "InversionImagingMapping"
            ctx.check(type(inv).__name__ == want_cls, "factory/class", "expected %s got %s" % (want_cls, type(inv).__name__))
            tag = "+".join(s.split("_")[0] for s in subset) or "none"
            prefix = "subset/%s" % fname
            for q in QUANTITIES:
                try:
                    got = _read(inv, q)
                except exc.InversionException:
                    ctx.check(q in base.errs, prefix + "/exception-mismatch", "preloaded inversion raised InversionException reading %s, baseline did not (subset %s)" % (q, tag))
                    continue
                if q in base.errs:
                    ctx.fail(prefix + "/exception-mismatch", "baseline raised reading %s, preloaded did not (subset %s)" % (q, tag))
                    continue
                _compare(ctx, q, got, base, prefix)
            for k, h in fps.items():
                ctx.check(_fp(kw[k]) == h and _fp(getattr(pre, k)) == h, "preload-mutated/%s" % k, "preloaded %s changed by the inversion (subset %s, %s)" % (k, tag, fname))
    # the preloads.use_w_tilde switch changes only the formalism, never values
    for flag in (False, True):
        sc = scene.build_scene(case)
        inv = aa.Inversion(dataset=sc.dataset, linear_obj_list=sc.objs, settings=_settings(aa, True, pos), preloads=aa.Preloads(use_w_tilde=flag))
        base = bases[flag]
        for q in ("data_vector", "curvature_matrix", "reconstruction", "mapped_reconstructed_data"):
            try:
                got = _read(inv, q)
            except exc.InversionException:
                ctx.check(q in base.errs, "use_w_tilde-switch/exception-mismatch", "raised with preloads.use_w_tilde=%s only" % flag)
                continue
            if q not in base.errs:
                _compare(ctx, q, got, base, "use_w_tilde-switch")


# ---------------------------------------------------------------------------------------------
# the remaining public slots that an imaging inversion consults: mapper / function-list partial products
ESLOTS = ["data_vector_mapper", "curvature_matrix_mapper_diag", "mapper_operated_mapping_matrix_dict",
          "linear_func_operated_mapping_matrix_dict", "data_linear_func_matrix_dict"]
_EATTR = {"data_vector_mapper": "_data_vector_mapper", "curvature_matrix_mapper_diag": "_curvature_matrix_mapper_diag",
          "mapper_operated_mapping_matrix_dict": "mapper_operated_mapping_matrix_dict",
          "linear_func_operated_mapping_matrix_dict": "linear_func_operated_mapping_matrix_dict",
          "data_linear_func_matrix_dict": "data_linear_func_matrix_dict"}


def _copy_slot(v):
    if v is None:
        return None
    if isinstance(v, dict):
        return {k: np.array(x, dtype=float).copy() for k, x in v.items()}
    return np.array(v, dtype=float).copy()


def _slot_fps(kw):
    out = {}
    for k, v in kw.items():
        if isinstance(v, np.ndarray):
            out[k] = _fp(v)
        elif isinstance(v, dict):
            out[k] = tuple(_fp(x) for x in v.values())
    return out


@st.composite
def more_slots_case(draw):
    c = draw(scene.scenarios(max_objs=3, img_kwargs=dict(max_inner=4, max_k=3, unit_exponents=(0, 0, 0, -10, 10, 14)), obj_kwargs=dict(max_sub=2, max_mesh=4)))
    c["main_bits"] = draw(st.sampled_from([0, 0, 0, 1, 2, 4, 8, 16, 3, 6, 21, 31]))
    c["positive_only"] = draw(st.sampled_from([False, False, True]))
    return c


def body_more_slots(case, ctx):
    """Partial-product slots (the ones Preloads.set_curvature_matrix / set_linear_func_inversion_dicts fill): values taken from
    an inversion of the w-tilde formalism on identical, separately built inputs (dictionaries keyed by THAT inversion's
    linear objects), supplied in every one of the 2^5 subsets to both formalisms."""
    import autoarray as aa
    from autoarray import exc
    scene.scene_labels(case, ctx)
    types = [o["type"] for o in case["objs"]]
    all_func = all(t == "func" for t in types)
    ctx.nt("func" in types and len(set(types)) > 1 or len(types) >= 2)
    ctx.label("objs:func+mapper" if ("func" in types and not all_func) else ("objs:func-only" if all_func else "objs:mappers-only"))
    pos = case["positive_only"]
    bases = {w: Baseline(case, w, pos) for w in (False, True)}
    aux_sc = scene.build_scene(case)
    aux = aa.Inversion(dataset=aux_sc.dataset, linear_obj_list=aux_sc.objs, settings=_settings(aa, True, pos))
    values = {name: _copy_slot(getattr(aux, attr)) for name, attr in _EATTR.items()}
    for name, v in values.items():
        ctx.label("slot-available:%s" % name if v is not None and (not isinstance(v, dict) or len(v)) else "slot-empty:%s" % name)
    main_subset = [s for i, s in enumerate(SLOTS) if (case["main_bits"] >> i) & 1]
    for use_w in (False, True):
        base = bases[use_w]
        fname = "w_tilde" if use_w else "mapping"
        for bits in range(1, 32):
            subset = [s for i, s in enumerate(ESLOTS) if (bits >> i) & 1]
            if any(values[s] is None for s in subset):
                continue
            sc = scene.build_scene(case)
            pre, kw = _preloads_from(aa, base, main_subset, sc.dataset)
            for s in subset:
                kw[s] = _copy_slot(values[s])
                setattr(pre, s, kw[s])
            fps = _slot_fps(kw)
            inv = aa.Inversion(dataset=sc.dataset, linear_obj_list=sc.objs, settings=_settings(aa, use_w, pos), preloads=pre)
            tag = "+".join(subset + main_subset)
            prefix = "more-slots/%s" % fname
            for q in QUANTITIES:
                try:
                    got = _read(inv, q)
                except exc.InversionException:
                    ctx.check(q in base.errs, prefix + "/exception-mismatch", "preloaded inversion raised InversionException reading %s, baseline did not (slots %s)" % (q, tag))
                    continue
                if q in base.errs:
                    ctx.fail(prefix + "/exception-mismatch", "baseline raised reading %s, preloaded did not (slots %s)" % (q, tag))
                    continue
                _compare(ctx, q, got, base, prefix + "/" + ("func+mapper" if ("func" in types and not all_func) else "other"))
            now = _slot_fps(kw)
            for k, h in fps.items():
                ctx.check(now[k] == h, "more-slots/preload-mutated/%s" % k, "preloaded %s changed by the inversion (slots %s, %s)" % (k, tag, fname))



# ---------------------------------------------------------------------------------------------
# slots filled by the library's own setters from two fits on identical inputs
SETTERS = ["set_w_tilde_imaging", "set_mapper_list", "set_operated_mapping_matrix_with_preloads",
           "set_linear_func_inversion_dicts", "set_curvature_matrix", "set_regularization_matrix_and_term"]


@st.composite
def setters_case(draw):
    c = draw(scene.scenarios(max_objs=3, img_kwargs=dict(max_inner=4, max_k=3, unit_exponents=(0, 0, 0, -10, 10, 14)), obj_kwargs=dict(max_sub=2, max_mesh=4)))
    c["setter_order"] = draw(st.permutations(list(range(len(SETTERS)))))
    c["setter_bits"] = draw(st.sampled_from([63, 63, 1, 2, 4, 8, 16, 32, 48, 17, 25, 40, 62]))
    c["fits_use_w"] = draw(st.booleans())
    c["fits_fully_read"] = draw(st.booleans())
    c["positive_only"] = draw(st.sampled_from([False, False, True]))
    return c


def body_setters(case, ctx):
    """Preloads.set_*(fit_0, fit_1) with two fits whose inversions were built from identical, separately constructed inputs,
    then inversions that use the resulting Preloads object (twice, both requested formalisms) against the no-preload baseline."""
    import types
    import autoarray as aa
    from autoarray import exc
    scene.scene_labels(case, ctx)
    kinds = [o["type"] for o in case["objs"]]
    ctx.nt("func" in kinds and len(set(kinds)) > 1 or len(kinds) >= 2)
    pos = case["positive_only"]
    bases = {w: Baseline(case, w, pos) for w in (False, True)}
    fits = []
    for _ in range(2):
        sc = scene.build_scene(case)
        inv = aa.Inversion(dataset=sc.dataset, linear_obj_list=sc.objs, settings=_settings(aa, case["fits_use_w"], pos))
        if case["fits_fully_read"]:
            for q in ("reconstruction", "log_det_curvature_reg_matrix_term", "log_det_regularization_matrix_term"):
                try:
                    getattr(inv, q)
                except exc.InversionException:
                    pass
        fits.append(types.SimpleNamespace(inversion=inv, noise_map=sc.dataset.noise_map, dataset=sc.dataset, data=sc.dataset.data))
    pre = aa.Preloads()
    called = []
    for i in case["setter_order"]:
        if (case["setter_bits"] >> i) & 1:
            try:
                getattr(pre, SETTERS[i])(fit_0=fits[0], fit_1=fits[1])
            except exc.InversionException:
                ctx.label("setter-raised-inversion-exception")
                continue
            called.append(SETTERS[i])
    filled = sorted(k for k, v in vars(pre).items() if v is not None and k != "use_w_tilde")
    for k in filled:
        ctx.label("setter-filled:%s" % k)
    ctx.label("setters-filled:%d" % len(filled))
    fps0 = _slot_fps({k: getattr(pre, k) for k in filled})
    for round_ in range(2):
        for use_w in (False, True):
            sc = scene.build_scene(case)
            inv = aa.Inversion(dataset=sc.dataset, linear_obj_list=sc.objs, settings=_settings(aa, use_w, pos), preloads=pre)
            is_w = type(inv).__name__ == "InversionImagingWTilde"
            base = bases[is_w]
            prefix = "setters/%s" % ("w_tilde" if is_w else "mapping")
            for q in QUANTITIES:
                try:
                    got = _read(inv, q)
                except exc.InversionException:
                    ctx.check(q in base.errs, prefix + "/exception-mismatch", "inversion with setter-filled preloads raised InversionException reading %s, baseline did not (%s)" % (q, "+".join(called)))
                    continue
                if q in base.errs:
                    ctx.fail(prefix + "/exception-mismatch", "baseline raised reading %s, inversion with setter-filled preloads did not (%s)" % (q, "+".join(called)))
                    continue
                _compare(ctx, q, got, base, prefix)
            now = _slot_fps({k: getattr(pre, k) for k in filled})
            for k, h in fps0.items():
                ctx.check(now.get(k) == h, "setters/preload-mutated/%s" % k, "slot %s filled by the setters changed after inversion %d (%s)" % (k, 2 * round_ + int(use_w) + 1, "+".join(called)))



# ---------------------------------------------------------------------------------------------
# setters on two fits that differ in ONE linear function list: what the setters decide to keep must be valid for both
@st.composite
def setters_varied_case(draw):
    c = draw(scene.scenarios(max_objs=2, img_kwargs=dict(max_inner=4, max_k=3, unit_exponents=(0,)), obj_kwargs=dict(max_sub=2, max_mesh=4)))
    c["n_funcs"] = draw(st.integers(2, 3))
    c["differs"] = draw(st.integers(0, 2))
    c["func_positions"] = draw(st.sampled_from(["front", "back", "around"]))
    c["use_w"] = draw(st.booleans())
    c["setter_order"] = draw(st.permutations(list(range(len(SETTERS)))))
    return c


def _with_funcs(case, scale_of):
    """The case's mappers plus n_funcs one-column function lists (deterministic columns from the pixel index); function
    list j is scaled by scale_of(j)."""
    import copy
    c = copy.deepcopy(case)
    n = len(c["data"])
    mappers = [o for o in c["objs"] if o["type"] != "func"]
    funcs = []
    for j in range(case["n_funcs"]):
        col = [[scale_of(j) * (0.3 + ((7 * i + 3 * j) % 5) * 0.25 - (0.4 if (i + j) % 3 == 0 else 0.0))] for i in range(n)]
        funcs.append({"type": "func", "matrix": col, "func_kind": "signed", "reg": None})
    pos = case["func_positions"]
    if pos == "front":
        c["objs"] = funcs + mappers
    elif pos == "back":
        c["objs"] = mappers + funcs
    else:
        c["objs"] = funcs[:1] + mappers + funcs[1:]
    return c


def body_setters_varied(case, ctx):
    """fit_0 and fit_1 share the dataset and the mappers and differ in exactly one of 2-3 linear function lists (the situation
    the setters exist for). Whatever Preloads.set_* decides to keep must leave the inversion of EITHER model equal to its own
    no-preload baseline."""
    import types
    import autoarray as aa
    from autoarray import exc
    kinds = [o["type"] for o in case["objs"]]
    if all(k == "func" for k in kinds):
        ctx.label("varied:no-mapper-skipped")
        return
    k = case["differs"] % case["n_funcs"]
    ctx.label("varied:differs-%s" % ("last" if k == case["n_funcs"] - 1 else ("first" if k == 0 else "middle")), "varied:funcs-%s" % case["func_positions"],
              "varied:%s" % ("w_tilde" if case["use_w"] else "mapping"))
    ctx.nt(k != case["n_funcs"] - 1)
    models = [_with_funcs(case, lambda j: 1.0), _with_funcs(case, lambda j: 1.75 if j == k else 1.0)]
    use_w = case["use_w"]
    bases = [Baseline(m, use_w) for m in models]
    fits = []
    for m in models:
        sc = scene.build_scene(m)
        inv = aa.Inversion(dataset=sc.dataset, linear_obj_list=sc.objs, settings=_settings(aa, use_w))
        fits.append(types.SimpleNamespace(inversion=inv, noise_map=sc.dataset.noise_map, dataset=sc.dataset, data=sc.dataset.data))
    pre = aa.Preloads()
    for i in case["setter_order"]:
        getattr(pre, SETTERS[i])(fit_0=fits[0], fit_1=fits[1])
    filled = sorted(kk for kk, v in vars(pre).items() if v is not None and kk != "use_w_tilde")
    for kk in filled:
        ctx.label("varied-filled:%s" % kk)
    for which in (1, 0, 1):
        m = models[which]
        sc = scene.build_scene(m)
        inv = aa.Inversion(dataset=sc.dataset, linear_obj_list=sc.objs, settings=_settings(aa, use_w), preloads=pre)
        is_w = type(inv).__name__ == "InversionImagingWTilde"
        if is_w != use_w:
            base = Baseline(m, is_w)
        else:
            base = bases[which]
        prefix = "setters-varied/%s/model-%d" % ("w_tilde" if is_w else "mapping", which)
        for q in QUANTITIES:
            try:
                got = _read(inv, q)
            except exc.InversionException:
                ctx.check(q in base.errs, prefix + "/exception-mismatch", "raised InversionException reading %s, baseline did not (filled %s)" % (q, "+".join(filled)))
                continue
            if q in base.errs:
                ctx.fail(prefix + "/exception-mismatch", "baseline raised reading %s, preloaded did not (filled %s)" % (q, "+".join(filled)))
                continue
            _compare(ctx, q, got, base, prefix)



# ---------------------------------------------------------------------------------------------
class Interp:
    """History interpreter: one shared Preloads object, several inversions, reads in any order."""

    def __init__(self, ctx):
        self.ctx = ctx
        self.dead = False
        self.case = None
        self.invs = []
        self.n_reads = 0

    def apply(self, op, a):
        import autoarray as aa
        from autoarray import exc
        ctx = self.ctx
        if op == "setup":
            self.case = a["case"]
            scene.scene_labels(self.case, ctx)
            self.pos = a["positive_only"]
            self.bases = {w: Baseline(self.case, w, self.pos) for w in (False, True)}
            self.subset = [s for i, s in enumerate(SLOTS) if (a["subset_bits"] >> i) & 1]
            filler = self.bases[a["fill_w"]]
            self.shared_dataset = scene.build_scene(self.case).dataset
            self.pre, self.kw = _preloads_from(aa, filler, self.subset, self.shared_dataset)
            ebits = a.get("extra_bits", 0)
            if ebits:
                aux_sc = scene.build_scene(self.case)
                aux = aa.Inversion(dataset=aux_sc.dataset, linear_obj_list=aux_sc.objs, settings=_settings(aa, True, self.pos))
                for i, name in enumerate(ESLOTS):
                    if (ebits >> i) & 1:
                        v = _copy_slot(getattr(aux, _EATTR[name]))
                        if v is not None:
                            self.kw[name] = v
                            setattr(self.pre, name, v)
                            ctx.label("extra-slot:%s" % name)
            self.fps = _slot_fps(self.kw)
            ctx.label("subset:%d-slots" % len(self.subset), "subset:has-curvature" if "curvature_matrix" in self.subset else "subset:no-curvature")
            return
        if self.case is None:
            return
        if op == "invert":
            sc = scene.build_scene(self.case)
            ds = self.shared_dataset if a["share_dataset"] else sc.dataset
            inv = aa.Inversion(dataset=ds, linear_obj_list=sc.objs, settings=_settings(aa, a["use_w"], self.pos), preloads=self.pre)
            self.invs.append((inv, a["use_w"]))
            if len(self.invs) >= 2 and "curvature_matrix" in self.subset:
                ctx.nt(True)
            types = [o["type"] for o in self.case["objs"]]
            if "func" in types and len(set(types)) > 1:
                ctx.nt(True)
        elif op == "read":
            if not self.invs:
                return
            inv, use_w = self.invs[a["which"] % len(self.invs)]
            q = QUANTITIES[a["q"] % len(QUANTITIES)]
            base = self.bases[use_w]
            self.n_reads += 1
            try:
                got = _read(inv, q)
            except exc.InversionException:
                ctx.check(q in base.errs, "history/exception-mismatch", "read of %s raised InversionException, baseline did not" % q)
                return
            if q in base.errs:
                ctx.fail("history/exception-mismatch", "baseline raised InversionException reading %s but this read succeeded" % q)
                return
            _compare(ctx, q, got, base, "history/%s" % ("w_tilde" if use_w else "mapping"))
        self.check_preloads()

    def check_preloads(self):
        now = _slot_fps(self.kw)
        held = _slot_fps({k: getattr(self.pre, k) for k in self.kw})
        for k, h in self.fps.items():
            self.ctx.check(now[k] == h and held.get(k) == h, "preload-mutated/%s" % k,
                           "preloaded %s changed after %d inversions / %d reads" % (k, len(self.invs), self.n_reads))

    def finish(self):
        self.ctx.label("history:%d-inversions" % min(len(self.invs), 4), "history:reads>=5" if self.n_reads >= 5 else "history:reads<5")


def machine(run):
    from hypothesis.stateful import rule, initialize, precondition
    Base = machine_base(run, Interp)

    class PreloadMachine(Base):
        @initialize(case=scene.scenarios(max_objs=2, img_kwargs=dict(max_inner=4, max_k=3, unit_exponents=(0, 0, 0, -10, 10, 14, 18)), obj_kwargs=dict(max_sub=2, max_mesh=4)),
                    subset_bits=st.integers(0, 31), fill_w=st.booleans(), positive_only=st.sampled_from([False, False, True]),
                    extra_bits=st.sampled_from([0, 0, 1, 2, 3, 4, 8, 16, 24, 31]))
        def setup(self, case, subset_bits, fill_w, positive_only, extra_bits):
            self.op("setup", case=case, subset_bits=subset_bits, fill_w=fill_w, positive_only=positive_only, extra_bits=extra_bits)

        @rule(use_w=st.booleans(), share_dataset=st.booleans())
        def invert(self, use_w, share_dataset):
            self.op("invert", use_w=use_w, share_dataset=share_dataset)

        @rule(which=st.integers(0, 7), q=st.integers(0, len(QUANTITIES) - 1))
        def read(self, which, q):
            self.op("read", which=which, q=q)

    return PreloadMachine


SUBCHECKS = [
    SubCheck("subsets", body_subsets, strategy=subsets_case(), examples={"quick": 320, "thorough": 3200}, shards={"quick": 16, "thorough": 16}),
    SubCheck("more_slots", body_more_slots, strategy=more_slots_case(), examples={"quick": 320, "thorough": 3200}, shards={"quick": 16, "thorough": 16}),
    SubCheck("setters", body_setters, strategy=setters_case(), examples={"quick": 240, "thorough": 2400}, shards={"quick": 16, "thorough": 16}),
    SubCheck("setters_varied", body_setters_varied, strategy=setters_varied_case(), examples={"quick": 160, "thorough": 1600}, shards={"quick": 8, "thorough": 16}),
    SubCheck("history", replay_history(Interp), machine=machine, examples={"quick": 960, "thorough": 8000},
             shards={"quick": 16, "thorough": 16}, steps={"quick": 12, "thorough": 25}),
]
