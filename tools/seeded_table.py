"""Prints the markdown table of seeded changes (seeded/*/meta.json) for DESIGN.md section 8."""
import glob, json, os
VERIF = os.path.dirname(os.path.dirname(os.path.abspath(__file__)))
print("| id | needs to manifest | caught by (first failure key) | note |")
print("|---|---|---|---|")
for p in sorted(glob.glob(os.path.join(VERIF, "seeded", "*", "meta.json"))):
    m = json.load(open(p))
    det = []
    for prop, d in m["detected_by"].items():
        k = d["keys"][0].split(" :: ")[0].replace("key=", "") if d.get("keys") else ""
        det.append("%s %s %s" % (prop, d["status"], ("`%s`" % k) if k else ""))
    print("| %s | %s | %s | %s |" % (m["id"], m.get("needs_to_manifest", "").replace("|", "/"), "; ".join(det), m.get("history", "")))
