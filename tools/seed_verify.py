"""Confirm a seeded change produced by an independent sub-agent and file it under /verif/seeded/<id>/.

usage: /venv/bin/python tools/seed_verify.py <id> [--src /tmp/seed/out/<id>] [--tier quick]
Steps (all in a scratch worktree of /repo HEAD outside /repo and /verif, removed afterwards):
 1 demo passes on the unchanged tree; 2 patch applies; 3 demo fails with the patch; 4 the pinned suite's
 stable_pass set still passes with the patch; 5 run the property's check against the patched tree.
"""
import json, os, shutil, subprocess, sys, tempfile

VERIF = os.path.dirname(os.path.dirname(os.path.abspath(__file__)))


def sh(cmd, cwd=None, env=None):
    p = subprocess.run(cmd, cwd=cwd, env=env, capture_output=True, text=True, shell=isinstance(cmd, str))
    return p.returncode, (p.stdout + p.stderr)


def main():
    sid = sys.argv[1]
    src = sys.argv[sys.argv.index("--src") + 1] if "--src" in sys.argv else "/tmp/seed/out/%s" % sid
    tier = sys.argv[sys.argv.index("--tier") + 1] if "--tier" in sys.argv else "quick"
    prop = sid[:3]
    props = sys.argv[sys.argv.index("--props") + 1].split(",") if "--props" in sys.argv else [prop]
    wt = tempfile.mkdtemp(prefix="sv_%s_" % sid, dir="/tmp")
    os.rmdir(wt)
    res = {"id": sid, "property": prop}
    try:
        rc, out = sh(["git", "-C", "/repo", "worktree", "add", "--detach", "-q", wt, "HEAD"])
        assert rc == 0, out
        env = dict(os.environ, PYTHONDONTWRITEBYTECODE="1")
        rc0, out0 = sh(["/venv/bin/python", os.path.join(src, "demo.py")], cwd=wt, env=env)
        res["demo_clean_rc"] = rc0
        res["demo_clean_tail"] = out0.strip().splitlines()[-1:] if out0.strip() else []
        rc, out = sh(["git", "apply", os.path.join(src, "patch.diff")], cwd=wt)
        res["patch_applies"] = rc == 0
        if rc != 0:
            res["patch_error"] = out[-400:]
        rc1, out1 = sh(["/venv/bin/python", os.path.join(src, "demo.py")], cwd=wt, env=env)
        res["demo_patched_rc"] = rc1
        res["demo_patched_tail"] = out1.strip().splitlines()[-1:] if out1.strip() else []
        rc, out = sh(["git", "diff", "--stat"], cwd=wt)
        res["diffstat"] = out.strip().splitlines()[-1:] 
        rcb, outb = sh(["/venv/bin/python", os.path.join(VERIF, "tools", "baseline.py"), "--repo", wt])
        res["suite_stable_pass"] = rcb == 0
        res["suite_line"] = outb.strip().splitlines()[:3]
        res["checks"] = {}
        for pr in props:
            envc = dict(os.environ, VERIF_REPO=wt, PYTHONHASHSEED="0", VERIF_REPLAY_OUT=os.path.join(wt, "replays_out"), VERIF_EVIDENCE_OUT=os.path.join(wt, "evidence_out"), PYTHONDONTWRITEBYTECODE="1")
            rcc, outc = sh(["/venv/bin/python", "-m", "vp.run", pr, "--tier", tier], cwd=VERIF, env=envc)
            keys = [l.strip()[:200] for l in outc.splitlines() if l.strip().startswith("key=")]
            res["checks"][pr] = {"tier": tier, "exit": rcc, "status": {0: "SURVIVED", 1: "KILLED", 2: "HARNESS-ERROR"}.get(rcc, str(rcc)), "keys": keys[:4]}
            if rcc == 2:
                res["checks"][pr]["stderr_tail"] = outc[-600:]
        res["confirmed"] = bool(rc0 == 0 and res["patch_applies"] and rc1 != 0 and res["suite_stable_pass"])
    finally:
        sh(["git", "-C", "/repo", "worktree", "remove", "--force", wt])
        shutil.rmtree(wt, ignore_errors=True)
        sh(["git", "-C", "/repo", "worktree", "prune"])
    print(json.dumps(res, indent=1))
    if res.get("confirmed"):
        dst = os.path.join(VERIF, "seeded", sid)
        os.makedirs(dst, exist_ok=True)
        for f in ("patch.diff", "demo.py", "notes.md"):
            if os.path.exists(os.path.join(src, f)) and os.path.realpath(src) != os.path.realpath(dst):
                shutil.copy(os.path.join(src, f), os.path.join(dst, f))
        meta_path = os.path.join(dst, "meta.json")
        meta = {"id": sid, "property": prop, "source": "independent sub-agent given only the property text and a scratch worktree",
                "needs_to_manifest": "see notes.md", "verified": {k: res[k] for k in ("demo_clean_rc", "demo_patched_rc", "suite_stable_pass", "diffstat")},
                "what_i_ran": "tools/seed_verify.py %s (demo on clean worktree, git apply, demo on patched worktree, tools/baseline.py --repo <worktree>, vp.run %s --tier %s with VERIF_REPO=<worktree>)" % (sid, ",".join(props), tier),
                "detected_by": res["checks"]}
        if os.path.exists(meta_path):
            old = json.load(open(meta_path))
            old_det = old.get("detected_by", {})
            old_det.update(res["checks"])
            meta["detected_by"] = old_det
            for k in ("needs_to_manifest", "history", "breaks", "first_verdict", "round", "retired"):
                if k in old and (k not in meta or meta[k] == "see notes.md"):
                    meta[k] = old[k]
        json.dump(meta, open(meta_path, "w"), indent=1)


main()
