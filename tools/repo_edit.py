"""Exact textual replacement in a repository file that preserves the file's line endings (most files
under /repo/autoarray use CRLF).  usage (python): from repo_edit import edit; edit(path, old, new, count=1)
CLI: python tools/repo_edit.py <path> <old-file> <new-file>   (old/new snippets in files, LF endings)"""
import sys


def edit(path, old, new, count=1):
    with open(path, newline="") as f:
        s = f.read()
    crlf = "\r\n" in s
    if crlf:
        old = old.replace("\r\n", "\n").replace("\n", "\r\n")
        new = new.replace("\r\n", "\n").replace("\n", "\r\n")
    c = s.count(old)
    if c != count:
        raise SystemExit("%s: expected %d occurrence(s) of the old text, found %d" % (path, count, c))
    with open(path, "w", newline="") as f:
        f.write(s.replace(old, new))


if __name__ == "__main__":
    edit(sys.argv[1], open(sys.argv[2]).read(), open(sys.argv[3]).read())
