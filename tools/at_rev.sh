#!/bin/sh
# usage: tools/at_rev.sh <git-rev-of-/repo> <Cxx> [extra vp.run args]  — runs a check against a past revision
rev=$1; prop=$2; shift 2
d=$(mktemp -d /tmp/vprev_XXXXXX)
git -C /repo archive "$rev" autoarray | tar -x -C "$d"
cd /verif && VERIF_EVIDENCE_OUT="$d/evidence_out" VERIF_REPLAY_OUT="$d/replays_out" VERIF_REPO="$d" /venv/bin/python -m vp.run "$prop" "$@"
rc=$?
rm -rf "$d"
exit $rc
