"""Writes the task descriptions handed to the independent seeding sub-agents (one per property) and creates their
scratch worktrees.  The agents get ONLY this text (property statement + quantifier) and a worktree under /tmp/seed;
nothing from /verif.   usage: /venv/bin/python tools/seed_prompts.py <letters e.g. gh> <round-number>
Afterwards: spawn one agent per property with the prompt "Read the file /tmp/seed/prompt<round>_<Cxx>.txt and follow
its instructions exactly ..."; confirm each result with tools/seed_verify.py <id>; remove the worktrees."""
import json, os, subprocess, sys

VERIF = os.path.dirname(os.path.dirname(os.path.abspath(__file__)))
letters = sys.argv[1]
rnd = int(sys.argv[2])
a, b = letters[0], (letters[1] if len(letters) > 1 else None)

EARLIER = {
    1: "",
    2: "this is a second round. A first round of seeded changes already used the obvious single-operator slips in the main functions (swapped axis/index, `>` for `!=`, dropped argument, off-by-one bound, missing copy). So aim for faults of a different kind, that need something specific or need state: a rarely taken branch (exact equality of two parameters, a particular size / parity / count threshold, degenerate or boundary geometry, values exactly zero or exactly on a threshold, unusually large or unusually small sizes), a tolerance or threshold changed by orders of magnitude that only matters for small / large magnitudes, a cache keyed on too little (stale result only when the SAME object is reused with different arguments or a different order of calls), shared mutable default / module-level state, an in-place update that only leaks through a specific later call, or two cooperating edits in different files that are each harmless alone.",
}
EARLIER[3] = EARLIER[2].replace("this is a second round. A first round of seeded changes already used", "this is a third round. Earlier rounds of seeded changes already used").replace(
    "missing copy).", "missing copy) and several of the ideas listed below in their most direct form (a tolerance or threshold made absolute in the central routine, a result cached on the object under test keyed on too little, a shared default argument, an in-place update of a cached array). Try to find a DIFFERENT code site or clause of the property than the obvious central routine, or a less direct way for the fault to arise.")
EARLIER[4] = ("this is a fourth round. Earlier rounds of seeded changes already used: single-operator slips in the main functions (swapped axis/index, wrong comparison, dropped argument, off-by-one, missing copy); tolerances / thresholds made absolute; fast paths on exact equality of two parameters or on a sum being zero; results memoised at module level or on the object and keyed on too little (shape, origin, mask pattern, sub-size missing from the key), cached helpers travelling to copies / derived objects; shared mutable default arguments; in-place updates of cached arrays or of the caller's arrays; output buffers inheriting the dtype of the input; point-location tolerances. Do NOT repeat those. Find a DIFFERENT kind of fault or a different place for it, for example: a less-travelled public entry point that the property still covers (an alternative constructor or classmethod, a `from_*` / `via_*` route, a public utility function, a method on the derived / sliced / trimmed object rather than on the original); an interaction between two options or two features that are each fine alone; behaviour that differs between equivalent input forms (list vs ndarray vs the library's own types, slim vs native storage, float vs tuple pixel scales, int vs per-pixel array arguments); the second, third or last of several objects / calls (ordering, counts of three or more, the last element, empty or single-element collections); the error contract (an error that must be raised is no longer raised, or is raised for a valid input); integer overflow / truncation / rounding mode (floor vs round vs int()) at negative or half-way values; or state carried by an object the library hands back to the caller.")

EARLIER[5] = (EARLIER[4].replace("this is a fourth round.", "this is a fifth round.").split("Do NOT repeat those.")[0] + "Also used already: alternative constructors / from_* routes, list-vs-ndarray input forms, sizes beyond internal thresholds, empty collections, error contracts, rounding modes, uninitialised buffers. Do NOT repeat those. Find a DIFFERENT kind of fault, for example: behaviour under numpy arithmetic / ufuncs / slicing / copy.copy / copy.deepcopy / pickle of the library's array types (mask, pixel scales, origin or derived attributes lost or stale on the result); a property or attribute of a derived object (a resized / padded / trimmed / binned / sliced / sub-gridded / flipped object, or the output of one inversion fed into another) rather than of the original; dependence on input dtype (float32, int, bool, big-endian, non-contiguous / Fortran-ordered / negative-stride views); NaN / inf / negative-zero / denormal values in places where the property still has to hold; a fault that appears only on the SECOND call with different arguments or only when two objects of different shape are alive at once; an argument that is honoured in one code path but ignored in a sibling path (e.g. the settings object, a flag or a keyword that is silently dropped for one of several mesh / regularization / transformer / mask types); a unit / convention slip (y-x order, arc-second vs pixel, origin sign, upper-left vs centre) confined to one rarely used combination; or a loop bound / stride that is only wrong for a particular remainder (size mod 2, mod 3, mod sub-size).")

props = [json.loads(l) for l in open(os.path.join(VERIF, "properties.jsonl"))]
os.makedirs("/tmp/seed/out", exist_ok=True)
subprocess.run(["git", "-C", "/repo", "worktree", "prune"])
for p in props:
    pid = p["id"]; n = pid[1:]
    wt = "/tmp/seed/c%s" % n
    if not os.path.exists(wt):
        subprocess.run(["git", "-C", "/repo", "worktree", "add", "-q", "--detach", wt, "HEAD"], check=True)
    hard = ("" if rnd == 1 else "  4. is HARD to expose: %s Never use `git stash` (stashes are shared between worktrees); use `git diff > file` and `git checkout -- .` / `git apply` instead.\n" % EARLIER[rnd])
    k = 4 if rnd == 1 else 5
    text = f"""You are helping to evaluate a verification harness for the open-source Python library PyAutoArray (masked 2D array/grid/mask data structures plus linear-inversion, regularization and convolution numerics for astronomical image modelling). Your job is to play a careless-but-plausible developer: introduce a realistic bug into the library that breaks ONE stated semantic property while everything still imports and the library's existing test suite still passes.

Your private scratch copy of the repository is the git worktree /tmp/seed/c{n} (a detached checkout of the current HEAD). Work ONLY inside /tmp/seed/c{n} and /tmp/seed/out/. Do NOT read, list or touch /verif or /repo (the harness under evaluation lives there; your change must be independent of it), and do not run git commands that affect other worktrees. Interpreter: /venv/bin/python (numba is not installed, so every @jit function runs as plain Python; numpy, scipy, astropy, pytest are available; no network). Import the library from your worktree with `cd /tmp/seed/c{n} && /venv/bin/python -c "import autoarray"` (or PYTHONPATH=/tmp/seed/c{n}). Most source files use CRLF line endings: make small edits that keep the endings (e.g. with python: open(path, newline='') / write back with newline=''), and check `git diff --stat` shows only the few lines you meant to change.

THE PROPERTY ({pid}: {p['title']}):
{p['statement']}

It is meant to hold for: {p['quantifier']['text']}

TASK: produce TWO different, independent changes (call them {a} and {b}), each a small source edit under autoarray/ (not tests, not config) that
  1. makes the property FALSE for some inputs / call sequences,
  2. needs something specific to manifest — an unusual input (e.g. non-square shapes, particular parities, signed values, masks with holes or touching the frame edge, anisotropic pixel scales, non-zero origin), a multi-step sequence of operations, a particular order of reads, or two cooperating code sites that each look fine alone — rather than something ordinary use or a one-line smoke test would expose at once,
  3. still compiles/imports and leaves the library's own test suite green: run `cd /tmp/seed/c{n} && /venv/bin/python -m pytest -q -p no:cacheprovider -q test_autoarray 2>&1 | tail -5` BEFORE any edit to record which tests fail/err at baseline (a few dozen fail or error at baseline because optional packages are missing - that set must stay exactly the same), and AFTER each change to confirm that no additional test fails (run serially, no -n; it takes about 40 s),
{hard}  {k}. looks like a plausible slip or well-meant refactor/optimisation a reviewer could miss. Prefer subtle over blatant; the two changes should hit different code sites / different clauses of the property.

For EACH change x in ({a}, {b}) write to /tmp/seed/out/{pid}x/ (i.e. /tmp/seed/out/{pid}{a}/ and /tmp/seed/out/{pid}{b}/):
  - patch.diff : `git diff` of that change alone against the untouched worktree HEAD (apply-able with `git apply` at the repository root). Reset the worktree (`git checkout -- .`) between the two changes so each diff is independent.
  - demo.py : a small standalone program (uses only the public library API + numpy) that exits 0 and prints PASS on the untouched code and exits 1 / prints FAIL with the change applied; run as `cd <repo root> && /venv/bin/python /tmp/seed/out/{pid}x/demo.py` (it must import autoarray from the current directory, so start it with `import sys, os; sys.path.insert(0, os.getcwd())`). The demo must check the property itself (compare against an independent expectation computed in the demo), not just pin a magic number copied from the unmodified code.
  - notes.md : which clause of the property it breaks, what is needed for it to manifest, why the existing tests do not notice, and exactly what you ran (test-suite summary line before/after, demo output with and without the change).
Verify all of it yourself before finishing: baseline tests unchanged, demo passes without and fails with the change. Leave the worktree clean (`git checkout -- .`; remove stray files you created in it) when done. Final answer: a short summary of the two changes."""
    if b is None:
        text = (text.replace(f"produce TWO different, independent changes (call them {a} and {b}), each a small source edit", f"produce ONE change (call it {a}), a small source edit")
                .replace(f"For EACH change x in ({a}, {b}) write to /tmp/seed/out/{pid}x/ (i.e. /tmp/seed/out/{pid}{a}/ and /tmp/seed/out/{pid}{b}/):", f"Write to /tmp/seed/out/{pid}{a}/ (x = {a} below):")
                .replace(" Reset the worktree (`git checkout -- .`) between the two changes so each diff is independent.", "")
                .replace("; the two changes should hit different code sites / different clauses of the property.", ".")
                .replace("a short summary of the two changes.", "a short summary of the change. You have about 20 minutes: pick an idea quickly, keep it small."))
    open("/tmp/seed/prompt%d_%s.txt" % (rnd, pid), "w").write(text)
print("wrote %d prompts under /tmp/seed; worktrees:" % len(props))
subprocess.run("git -C /repo worktree list | wc -l", shell=True)
