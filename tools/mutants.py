"""Sensitivity testing: run checks against deliberately broken scratch copies of the repository.

usage: /venv/bin/python tools/mutants.py [--prop C01] [--name substr] [--tier quick] [--list]

Each mutant is (name, property, file, old, new[, count]).  The repository's `autoarray` package is
copied to a temp dir outside /repo and /verif, the textual replacement applied (it must match
exactly `count` times, default 1), the property's check run with VERIF_REPO pointing at the copy,
and the copy removed.  A mutant is KILLED when the check exits 1 with a VIOLATION line.
Seeded changes from sub-agents (seeded/<id>/patch.diff) are run the same way with --seeded.
"""
import argparse
import glob
import json
import os
import shutil
import subprocess
import sys
import tempfile

VERIF = os.path.dirname(os.path.dirname(os.path.abspath(__file__)))
REPO = "/repo"

M = []


def mut(name, prop, file, old, new, count=1, only=None):
    M.append(dict(name=name, prop=prop, file=file, old=old, new=new, count=count, only=only))


for _p in sorted(glob.glob(os.path.join(VERIF, "tools", "mutants.d", "*.py"))):
    _ns = {"mut": mut}
    exec(compile(open(_p).read(), _p, "exec"), _ns)


def make_copy():
    d = tempfile.mkdtemp(prefix="vpmut_", dir=os.environ.get("VP_SCRATCH", "/tmp"))
    shutil.copytree(os.path.join(REPO, "autoarray"), os.path.join(d, "autoarray"),
                    ignore=shutil.ignore_patterns("__pycache__"))
    return d


def run_check(prop, repo_dir, tier, only=None, seed="1"):
    env = dict(os.environ, VERIF_REPO=repo_dir, VERIF_SEED=seed, PYTHONHASHSEED="0",
               PYTHONDONTWRITEBYTECODE="1", VERIF_REPLAY_OUT=os.path.join(repo_dir, "replays_out"),
               VERIF_EVIDENCE_OUT=os.path.join(repo_dir, "evidence_out"))
    cmd = ["/venv/bin/python", "-m", "vp.run", prop, "--tier", tier]
    if only:
        cmd += ["--only", only]
    p = subprocess.run(cmd, cwd=VERIF, env=env, capture_output=True, text=True)
    return p.returncode, p.stdout, p.stderr


def run_mutant(m, tier):
    d = make_copy()
    try:
        path = os.path.join(d, m["file"])
        s = open(path).read()
        c = s.count(m["old"])
        if c != m["count"]:
            return "BADPATCH(count=%d)" % c, ""
        open(path, "w").write(s.replace(m["old"], m["new"]))
        rc, out, err = run_check(m["prop"], d, tier, m.get("only"))
        keys = [l.strip() for l in out.splitlines() if l.strip().startswith("key=")]
        status = {0: "SURVIVED", 1: "KILLED", 2: "HARNESS-ERROR"}.get(rc, "rc=%d" % rc)
        return status, "; ".join(k[:140] for k in keys[:3]) + (("\n" + err[-800:]) if rc == 2 else "")
    finally:
        shutil.rmtree(d, ignore_errors=True)


def run_seeded(sid, tier, props=None):
    meta = json.load(open(os.path.join(VERIF, "seeded", sid, "meta.json")))
    d = tempfile.mkdtemp(prefix="vpseed_", dir=os.environ.get("VP_SCRATCH", "/tmp"))
    try:
        shutil.copytree(os.path.join(REPO, "autoarray"), os.path.join(d, "autoarray"),
                        ignore=shutil.ignore_patterns("__pycache__"))
        p = subprocess.run(["patch", "-p1", "-s", "-d", d, "-i", os.path.join(VERIF, "seeded", sid, "patch.diff")],
                           capture_output=True, text=True)
        if p.returncode != 0:
            return "BADPATCH", p.stdout + p.stderr
        res = []
        for prop in (props or [meta["property"]]):
            rc, out, err = run_check(prop, d, tier)
            keys = [l.strip() for l in out.splitlines() if l.strip().startswith("key=")]
            status = {0: "SURVIVED", 1: "KILLED", 2: "HARNESS-ERROR"}.get(rc, "rc=%d" % rc)
            res.append("%s:%s %s" % (prop, status, "; ".join(k[:120] for k in keys[:2])))
        return " | ".join(res), ""
    finally:
        shutil.rmtree(d, ignore_errors=True)


def main():
    ap = argparse.ArgumentParser()
    ap.add_argument("--prop")
    ap.add_argument("--name")
    ap.add_argument("--tier", default="quick")
    ap.add_argument("--list", action="store_true")
    ap.add_argument("--seeded", action="store_true")
    a = ap.parse_args()
    if a.seeded:
        for p in sorted(glob.glob(os.path.join(VERIF, "seeded", "*", "meta.json"))):
            sid = os.path.basename(os.path.dirname(p))
            meta = json.load(open(p))
            if a.prop and meta["property"] != a.prop:
                continue
            if a.name and a.name not in sid:
                continue
            if meta.get("retired"):
                print("%-40s RETIRED (%s)" % (sid, meta["retired"][:90]))
                continue
            status, extra = run_seeded(sid, a.tier)
            print("%-40s %s %s" % (sid, status, extra))
            sys.stdout.flush()
        return
    bad = 0
    for m in M:
        if a.prop and m["prop"] != a.prop:
            continue
        if a.name and a.name not in m["name"]:
            continue
        if a.list:
            print(m["prop"], m["name"], m["file"])
            continue
        status, extra = run_mutant(m, a.tier)
        print("%-5s %-45s %s  %s" % (m["prop"], m["name"], status, extra))
        sys.stdout.flush()
        if status != "KILLED":
            bad += 1
    sys.exit(1 if bad else 0)


if __name__ == "__main__":
    main()
