"""Run the repository's pinned suite and compare with /root/.vp/BASELINE.json stable_pass.

usage: /venv/bin/python tools/baseline.py [-n WORKERS]
exit 0 iff every stable_pass test passes.
"""
import json, subprocess, sys, tempfile, os
import xml.etree.ElementTree as ET

def main():
    n = None
    repo = "/repo"
    if "--repo" in sys.argv:
        repo = sys.argv[sys.argv.index("--repo") + 1]
    if "-n" in sys.argv:
        n = sys.argv[sys.argv.index("-n") + 1]
    base = json.load(open("/root/.vp/BASELINE.json"))
    want = set(base["stable_pass"])
    fd, path = tempfile.mkstemp(suffix=".xml"); os.close(fd)
    cmd = ["/venv/bin/python", "-m", "pytest", "-q", "-p", "no:cacheprovider", "--timeout=900",
           "--continue-on-collection-errors", "--junitxml=" + path]
    if n:
        cmd += ["-n", n]  # faster, but a few plot tests are order dependent; serial is the reference
    env = dict(os.environ); env.pop("PYAUTOARRAY_VERIF", None)
    subprocess.run(cmd, cwd=repo, env=env, stdout=subprocess.DEVNULL, stderr=subprocess.DEVNULL)
    passed = set()
    for tc in ET.parse(path).getroot().iter("testcase"):
        if not any(ch.tag in ("failure", "error", "skipped") for ch in tc):
            passed.add(tc.get("classname") + "::" + tc.get("name"))
    missing = sorted(want - passed)
    if missing:
        # xdist workers race on shared output files in a few plot/fits tests: re-run those serially
        ids = []
        for m in missing:
            mod, name = m.split("::")
            ids.append(mod.replace(".", "/") + ".py::" + name)
        subprocess.run(["/venv/bin/python", "-m", "pytest", "-q", "-p", "no:cacheprovider", "--junitxml=" + path] + ids,
                       cwd=repo, env=env, stdout=subprocess.DEVNULL, stderr=subprocess.DEVNULL)
        for tc in ET.parse(path).getroot().iter("testcase"):
            if not any(ch.tag in ("failure", "error", "skipped") for ch in tc):
                passed.add(tc.get("classname") + "::" + tc.get("name"))
        missing = sorted(want - passed)
    # the suite rewrites a few tracked .fits fixtures; restore them (never touches source files)
    subprocess.run("git -C %s status --porcelain | awk '$1==\"M\" && $2 ~ /^test_autoarray\\/.*\\.fits$/ {print $2}' | xargs -r git -C %s checkout --" % (repo, repo),
                   shell=True)
    subprocess.run(["git", "-C", repo, "clean", "-fdq", "test_autoarray"])
    os.unlink(path)
    print("stable_pass=%d passed_now=%d missing=%d" % (len(want), len(passed & want), len(missing)))
    for m in missing[:50]:
        print("  NOT PASSING:", m)
    sys.exit(1 if missing else 0)

main()
