"""Regenerates MANIFEST.json from the check modules present in vp/checks and validates it."""
import importlib, json, os, sys
VERIF = os.path.dirname(os.path.dirname(os.path.abspath(__file__)))
sys.path.insert(0, VERIF)
props = [json.loads(l) for l in open(os.path.join(VERIF, "properties.jsonl"))]

TEXT = {}
def load_meta(pid):
    path = os.path.join(VERIF, "vp", "checks", pid.lower() + ".py")
    if not os.path.exists(path):
        return None
    src = open(path).read()
    ns = {}
    # MANIFEST_* constants are plain literals at module level; parse without importing autoarray
    import ast
    tree = ast.parse(src)
    for node in tree.body:
        if isinstance(node, ast.Assign) and len(node.targets) == 1 and isinstance(node.targets[0], ast.Name):
            name = node.targets[0].id
            if name in ("PROPERTY", "RULE", "ASSUMPTIONS", "LEVEL_TEXT", "LEVEL_NOTE", "TECHNIQUE", "DESIGN_REF"):
                try:
                    ns[name] = ast.literal_eval(node.value)
                except Exception:
                    pass
    return ns

CLAIMED = set(open(os.path.join(VERIF, "tools", "claimed.txt")).read().split())
checks, na = [], []
for p in props:
    pid = p["id"]
    meta = load_meta(pid) if pid in CLAIMED else None
    if meta is None:
        na.append({"property_id": pid, "reason": "check not built yet in this revision (designed in DESIGN.md section 2; generated-input search applies)"})
        continue
    checks.append({
        "property_id": pid,
        "quick_cmd": "/venv/bin/python -m vp.run %s --tier quick" % pid,
        "thorough_cmd": "/venv/bin/python -m vp.run %s --tier thorough" % pid,
        "evidence_file": "evidence/%s.json" % pid,
        "replay_cmd_template": "/venv/bin/python -m vp.run %s --replay {path}" % pid,
        "engine": "vp.engine",
        "level_claimed": {
            "category": "exploration",
            "text": meta.get("LEVEL_TEXT", "Generated-input search (Hypothesis @given / rule-based state machines / exhaustive small-domain enumeration) against an explicit oracle; the property held on every explored case, absence of violations outside the explored set is not claimed. Explored: " + " ".join(str(meta.get("RULE", "")).split())[:1500]),
            "design_ref": meta.get("DESIGN_REF", "DESIGN.md section 2, %s" % pid),
        },
        "level_note": meta.get("LEVEL_NOTE", ("Trusted: numpy/scipy reference arithmetic, the oracle in vp/checks/%s.py and vp/ref, Hypothesis generation; numba absent so @jit kernels run as plain Python; sizes bounded as stated in the evidence rule. Assumptions: " % pid.lower()) + " | ".join(" ".join(str(a).split()) for a in meta.get("ASSUMPTIONS", []))[:2500]),
        "technique": meta.get("TECHNIQUE", "property-based testing (Hypothesis) against a reference model"),
    })

manifest = {
    "version": 1,
    "setup_cmd": "/venv/bin/python -c 'import hypothesis, numpy, scipy' || /venv/bin/pip install --no-index --find-links /opt/veriftools/wheels hypothesis",
    "hooks": {
        "guard": "PYAUTOARRAY_VERIF",
        "enable": "no hooks or instrumentation are needed: every observation point is public API; checks import autoarray from /repo's working tree (sys.path) on every run and set PYAUTOARRAY_VERIF=1 only as a marker",
        "baseline_off_cmd": "cd /repo && /venv/bin/python -m pytest -ra -q -p no:cacheprovider --timeout=900 --continue-on-collection-errors",
        "source_commits": [],
        "add_only": True,
    },
    "engines": [
        {"name": "vp.engine", "path": "vp/engine.py", "serves_properties": [c["property_id"] for c in checks],
         "kind_free_text": "Hypothesis @given / rule-based state machines / exhaustive small-domain enumeration over a 16-process pool; JSON cases double as replay files; collect-then-shrink bucketing by root-cause key"},
    ],
    "checks": checks,
    "not_applicable": na,
    "notes": "All checks: `python -m vp.run <id> --tier quick|thorough`; VERIF_SEED honoured; exit 2 = harness error. known_findings.json lists recorded findings and fixed entries. tools/mutants.py runs the sensitivity mutants and the seeded changes under seeded/.",
}
json.dump(manifest, open(os.path.join(VERIF, "MANIFEST.json"), "w"), indent=1)
try:
    import jsonschema
    jsonschema.validate(manifest, json.load(open("/root/.vp/MANIFEST.schema.json")))
    print("MANIFEST valid; claimed:", [c["property_id"] for c in checks])
except ImportError:
    print("jsonschema not available; written without validation")
