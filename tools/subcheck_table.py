"""Prints a markdown table of the sub-checks of every claimed property (for DESIGN.md section 2b)."""
import importlib, os, sys
VERIF = os.path.dirname(os.path.dirname(os.path.abspath(__file__)))
sys.path.insert(0, VERIF)
from vp import env
env.setup()
print("| property | technique | sub-checks (kind, quick / thorough cases) |")
print("|---|---|---|")
for pid in open(os.path.join(VERIF, "tools", "claimed.txt")).read().split():
    m = importlib.import_module("vp.checks.%s" % pid.lower())
    subs = []
    for s in m.SUBCHECKS:
        n = "all" if s.kind == "enum" else "%s / %s" % (s.examples["quick"], s.examples["thorough"])
        subs.append("`%s` (%s, %s)" % (s.name, s.kind, n))
    print("| %s | %s | %s |" % (pid, getattr(m, "TECHNIQUE", "").replace("|", "/"), "; ".join(subs)))
