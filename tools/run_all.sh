#!/bin/sh
# usage: tools/run_all.sh [quick|thorough]  — runs every claimed check, prints one line each, validates evidence
tier=${1:-quick}
cd /verif
rc=0
for p in $(cat tools/claimed.txt); do
  out=$(/venv/bin/python -m vp.run $p --tier $tier 2>&1); r=$?
  echo "$out" | grep -E "^VIOLATION|^KNOWN-FINDING|^$p tier|HARNESS" | cut -c1-220
  [ $r -ne 0 ] && { echo "  -> $p exit $r"; rc=1; }
done
python3-vt tools/validate_evidence.py | grep -v "^ok"
exit $rc
