"""Which code of the files a property is anchored in do its checks actually execute?

usage: /venv/bin/python tools/coverage_audit.py [Cxx ...] [--tier quick]

Runs `vp.run <Cxx>` under coverage.py (line coverage, the fork pool included), restricted to /repo/autoarray, and prints
for each file named in the property's anchors the functions the check never entered and the functions it entered only
partly (with the missed line numbers).  A development aid for finding generator gaps: a function of an anchored file
that no generated case reaches is a place where a change cannot be noticed.  It decides nothing by itself, writes its
scratch data under a temporary directory that it removes, and leaves /verif/evidence untouched.
"""
import ast, json, os, shutil, subprocess, sys, tempfile

VERIF = os.path.dirname(os.path.dirname(os.path.abspath(__file__)))
REPO = os.environ.get("VERIF_REPO", "/repo")


def functions_of(path):
    tree = ast.parse(open(path).read())
    out = []

    def walk(node, prefix):
        for ch in ast.iter_child_nodes(node):
            if isinstance(ch, (ast.FunctionDef, ast.AsyncFunctionDef)):
                body_first = ch.body[0].lineno
                # skip the docstring when computing the executable span
                if isinstance(ch.body[0], ast.Expr) and isinstance(getattr(ch.body[0], "value", None), ast.Constant) \
                        and isinstance(ch.body[0].value.value, str):
                    body_first = ch.body[1].lineno if len(ch.body) > 1 else ch.body[0].end_lineno
                out.append((prefix + ch.name, body_first, ch.end_lineno))
                walk(ch, prefix + ch.name + ".")
            elif isinstance(ch, ast.ClassDef):
                walk(ch, prefix + ch.name + ".")
    walk(tree, "")
    return out


def main():
    args = [a for a in sys.argv[1:] if not a.startswith("--")]
    tier = sys.argv[sys.argv.index("--tier") + 1] if "--tier" in sys.argv else "quick"
    if "--tier" in sys.argv:
        args = [a for a in args if a != tier]
    props = {}
    for line in open(os.path.join(VERIF, "properties.jsonl")):
        p = json.loads(line)
        props[p["id"]] = p
    ids = args or sorted(props)
    for pid in ids:
        tmp = tempfile.mkdtemp(prefix="vpcov_")
        try:
            rc = os.path.join(tmp, "rc")
            with open(rc, "w") as f:
                f.write("[run]\nparallel = True\nconcurrency = multiprocessing\nsource = %s/autoarray\ndata_file = %s/.coverage\n"
                        % (REPO, tmp))
            env = dict(os.environ, PYTHONHASHSEED="0", COVERAGE_RCFILE=rc, VERIF_EVIDENCE_OUT=os.path.join(tmp, "ev"),
                       VERIF_REPLAY_OUT=os.path.join(tmp, "rp"), PYTHONDONTWRITEBYTECODE="1")
            r = subprocess.run(["/venv/bin/python", "-m", "coverage", "run", "-m", "vp.run", pid, "--tier", tier],
                               cwd=VERIF, env=env, capture_output=True, text=True)
            tail = [l for l in r.stdout.splitlines() if l.startswith(pid + " tier")]
            print("== %s exit=%d %s" % (pid, r.returncode, tail[-1] if tail else r.stderr[-300:]))
            subprocess.run(["/venv/bin/python", "-m", "coverage", "combine", "-q"], cwd=tmp, env=env, capture_output=True)
            js = os.path.join(tmp, "cov.json")
            subprocess.run(["/venv/bin/python", "-m", "coverage", "json", "-q", "-o", js], cwd=tmp, env=env,
                           capture_output=True)
            cov = json.load(open(js))["files"]
            for rel in props[pid]["anchors"]["files"]:
                path = os.path.join(REPO, rel)
                if not rel.endswith(".py") or not os.path.exists(path):
                    continue
                fc = cov.get(path)
                if fc is None:
                    print("  %s: NOT IMPORTED/EXECUTED" % rel)
                    continue
                missing = set(fc["missing_lines"])
                executed = set(fc["executed_lines"])
                never, partly = [], []
                for name, lo, hi in functions_of(path):
                    span = range(lo, hi + 1)
                    ex = [l for l in span if l in executed]
                    ms = [l for l in span if l in missing]
                    if not ex and ms:
                        never.append(name)
                    elif ms:
                        partly.append("%s(%s)" % (name, ",".join(map(str, ms[:12])) + ("…" if len(ms) > 12 else "")))
                pct = fc["summary"]["percent_covered"]
                print("  %s: %.0f%% lines" % (rel, pct))
                if never:
                    print("     never entered: " + ", ".join(never))
                if partly:
                    print("     partly: " + "; ".join(partly))
        finally:
            shutil.rmtree(tmp, ignore_errors=True)


if __name__ == "__main__":
    main()
